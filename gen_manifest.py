#!/usr/bin/env python3
"""Generate /verif/MANIFEST.json from the table below (and validate it when jsonschema is available)."""
import json, os, subprocess, sys
HERE = os.path.dirname(os.path.abspath(__file__))

HOOK_COMMITS = subprocess.run(["git","-C","/repo","log","--format=%H %s"],capture_output=True,text=True).stdout.splitlines()
HOOK_COMMITS = [l.split()[0] for l in HOOK_COMMITS if " verif hooks" in l]

TRUST = ("rustc/std; console crate (width measurement, ANSI stripping); verif_simrt (own scheduler/clock, "
         "validated by ./selftest.sh determinism + sensitivity runs); SimTerm's reading of xterm deferred-wrap "
         "semantics (cross-checked against the vt100 crate in a share of the runs); sampling: a clean batch is evidence, not proof")

SEQ_TECH = "deterministic simulation: seeded operation histories on a simulated terminal (TermLike seam) under a virtual clock, run in lock-step with an abstract reference model; whole-transcript oracle after every call"
CHECKS = {
 "C01": dict(level="exploration", ref="DESIGN.md §5 C01, Appendix A", technique=SEQ_TECH,
   text="Seeded search over single-bar histories (texts around multiples of the terminal width, empty/zero-width lines, templates, widths 1..200, clock gaps) against the real library on a simulated terminal with deferred-wrap semantics and scrollback; after every call the transcript must be exactly printed lines + current frame and the cursor must be parked for ordinary output. Sampling of histories; exact replay."),
 "C02": dict(level="exploration", ref="DESIGN.md §5 C02, Appendix A", technique=SEQ_TECH + "; plus seeded thread schedules for the concurrent part",
   text="Seeded search over MultiProgress histories (add/insert*/remove/updates/finish*/drop/println/clear/suspend/alignment) with a candidate-pattern transcript oracle (log lines, optional static finished bars in any order, members in logical order), and seeded interleavings of per-thread updates with a per-frame 'state the bar really had, never older than shown before' oracle. Sampling; exact replay."),
 "C03": dict(level="exploration", ref="DESIGN.md §5 C03", technique=SEQ_TECH,
   text="The same executor biased to println/suspend, finish/drop orders and exhausted rate limiters; reports only damage to printed lines (missing, duplicated, reordered, overwritten). Sampling; exact replay."),
 "C04": dict(level="exploration", ref="DESIGN.md §5 C04", technique=SEQ_TECH,
   text="Histories that exhaust both rate limiters right before every kind of finishing (explicit calls, with_finish+drop, finish_using_style, iterator exhaustion); the forced final frame must reach the terminal and show the final state; visibly finished dropped bars must stay until println/clear/suspend/remove. Sampling; exact replay."),
 "C19": dict(level="exploration", ref="DESIGN.md §5 C19", technique=SEQ_TECH + " with terminal sizes swept from 1x1",
   text="Small-terminal sweeps (W,H in 1..8 and a few larger) with histories that grow and shrink the set of bars past the terminal height, in one history in three on a window whose height changes between calls (the library is not told; a fault of the environment); the scrollback-aware transcript must show the leading lines/bars that fit and nothing of an earlier frame. Sampling; exact replay."),
 "C07": dict(level="exploration", ref="DESIGN.md §5 C07",
   technique="deterministic simulation: seeded histories vs wrapping/saturating reference model; seeded thread schedules with atomics as scheduling points",
   text="Seeded search: boundary-valued operation histories against an executable reference model (sequential), and 2-8 simulated threads incrementing clones under a seeded scheduler that interleaves at every atomic operation (lost-update oracle). Sampling over histories and schedules; exact replay from a seed/schedule file."),
 "C05": dict(level="exploration", ref="DESIGN.md §5 C05",
   technique="deterministic simulation: virtual clock with seeded arrival-gap generator clustered around the refresh interval; window/staleness laws checked on recorded paint timestamps",
   text="One run covers up to days of simulated time: 50-400 redraw requests with gaps at exactly the interval +- 1 ns / 1 us, bursts, seconds, hours, for every refresh rate 1..=255 and unlimited targets, standalone and through a MultiProgress, from every setter that issues a request and - in a mode of its own - from a steady ticker thread while the user thread sleeps, holds the bar inside suspend() or the terminal is slow; the statement's laws (window bound 20+R*T+1, no starvation after one interval, position staleness <= interval + 1 ms, position bucket burst 10 / 1 ms, nothing lost) are evaluated on the timestamps of the frames that reached the simulated terminal. Sampling of arrival patterns; exact replay."),
 "C06": dict(level="exploration", ref="DESIGN.md §5 C06",
   technique="deterministic simulation: hidden bar and visible twin driven in lock-step on one virtual clock; spy terminal attributes every terminal call to the API call in progress; real console::Term over a non-tty file",
   text="Seeded histories (every public call on a handle, builders, clones and weak handles, the iterator and io adaptors, calls on the hidden MultiProgress itself) applied to a hidden bar (twelve ways of being hidden, including a real non-tty console::Term and removal from a visible MultiProgress) and to a visible twin; getters must agree after every call and the hidden bar must make no terminal call or query, also while a steady ticker runs on simulated threads. Sampling; exact replay."),
 "C08": dict(level="exploration", ref="DESIGN.md §5 C08",
   technique="deterministic simulation: seeded random/sticky/PCT thread schedules at lock/condvar/spawn/join/atomic granularity with virtual timers, spurious wake-ups and clock jitter; deadlock (wait-for graph), no-time-scope and thread-lifecycle oracles",
   text="2-3 simulated user threads plus the library's ticker threads run short programs of public calls on shared handles; the scheduler owns every lock, condvar, spawn and join decision and the clock, so the three-party update()/ticker-slot/join interleaving is produced on demand and replayed exactly; stop calls must return without the virtual clock moving for intervals from 1 ms to 10 h; a second mode checks that the ticker ticks (also after the bar left its MultiProgress and joined again, and across calls that do not concern it), that manual ticks do not advance the spinner and that it stops on finish/disable/replace/drop. Sampling of schedules; exact replay from seed or schedule file."),
 "C18": dict(level="fault_enumeration", ref="DESIGN.md §5 C18",
   technique="deterministic simulation with fault injection: for every sampled history every terminal-call index k fails (once / from then on / flaky from then on) with rotating io::ErrorKind and raw OS codes; differential against the fault-free run; a share of the histories runs in a child process whose real standard error fails every write (EPIPE)",
   text="Histories are sampled from the seed; for each history the fault index dimension is enumerated completely: every one of the N terminal calls of the fault-free run is failed, in three modes (beyond the first 250 calls every 41st index and every flush). One history in forty runs with its whole enumeration in a process whose real standard error cannot be written. No call may panic on any simulated thread, getters must equal the fault-free run after every call, io::Result-returning calls must report the error, and everything is exercised and dropped afterwards (poisoned locks show there)."),
 "C09": dict(level="exploration", ref="DESIGN.md §5 C09",
   technique="deterministic simulation: virtual clock, seeded (gap, position) history generator from 1 ms to days, algebraic-law oracles and metamorphic twin bars; f64 reference estimator only to classify the known finding",
   text="Laws of the statement (finite/non-negative, exact for steady progress at any cadence, bounded by the largest sample rate, monotone decay while stalled, forgetfulness after reset/rewind, eta/duration relations) are checked on the real estimator driven through the public API with the clock behind a seam, so days of simulated time cost microseconds and getters are compared at one frozen instant; positions reach the bar by set_position, update, inc and seeks of the io adaptor, and gaps also pass inside the closure of suspend(). Sampling; exact replay."),
 "C11": dict(level="exploration", ref="DESIGN.md §5 C11",
   technique="deterministic simulation: random history then a frozen virtual instant; rendered key captured from the simulated terminal vs getter through the public formatter",
   text="For 25 documented keys the text painted on the simulated terminal at a frozen instant must equal the getter value at that same instant pushed through the documented public formatter; templates with several keys at once must show each value in its place; tick strings are checked against the list the style was built with; custom keys must see the current state, be ticked/reset with the bar and survive style()/template()/set_style round trips untouched. Sampling over histories; exact replay."),
 "C16": dict(level="exploration", ref="DESIGN.md §5 C16", technique=SEQ_TECH + "; byte-level inspection of every string reaching the terminal seam",
   text="Seeded call orders of tab-width, style, message and prefix setters (builder calls in all 24 orders) with tabs in texts, template literals (also next to escaped braces) and custom-key output, tab widths from 0 to beyond 65535; no TAB may reach the terminal, the transcript must equal the model rendering with the current tab width, message()/prefix() must return the expanded text. Sampling; exact replay."),
 "C17": dict(level="exploration", ref="DESIGN.md §5 C17",
   technique="deterministic simulation with fault injection: simulated reader/writer/stream with seeded short/EINTR/EAGAIN/EIO/Pending/EOF plan, call-by-call differential against an unwrapped twin + position model; seeded rayon split driver with leaves on simulated threads",
   text="Seeded search over call sequences and fault plans on simulated I/O objects behind the adaptors' existing Read/BufRead/Write/Seek/tokio Async*/Stream/Iterator/rayon plumbing seams. Sinks with and without vectored support, empty leading slices, declared lengths that are wrong. Every call is compared with an unwrapped twin that follows the same seeded behaviour plan and position() with an exact transfer count. Sampling; exact replay from the scenario file."),
}

NOT_APPLICABLE = {
 "C10": "pure function of the template string: no schedule, clock, fault or multi-call history for a simulator to control (deterministic simulation does not apply; see DESIGN.md §1)",
 "C12": "pure function of (width, alignment, truncate flag, content): nothing to schedule, delay or fail (DESIGN.md §1)",
 "C13": "pure function of (fraction, width, progress characters, terminal width): exhaustive enumeration is the right tool, not this family (DESIGN.md §1)",
 "C14": "pure relation over builder arguments x (state, tick, width): no schedule, clock or fault involved (DESIGN.md §1)",
 "C15": "pure functions Display for Human*/FormattedDuration of a number or Duration (DESIGN.md §1)",
}
PENDING_REASON = "applicable, but its simulation check is not built yet in this revision of /verif (planned in DESIGN.md §5); nothing is claimed for it"
ALL = ["C%02d" % i for i in range(1, 20)]

def main():
    checks = []
    for pid in ALL:
        if pid in CHECKS:
            c = CHECKS[pid]
            checks.append({
                "property_id": pid,
                "quick_cmd": f"./check {pid} quick",
                "thorough_cmd": f"./check {pid} thorough",
                "evidence_file": f"/verif/evidence/{pid}.json",
                "replay_cmd_template": "./check replay {path}",
                "engine": "verif-sim",
                "level_claimed": {"category": c["level"], "text": c["text"], "design_ref": c["ref"]},
                "level_note": TRUST,
                "technique": c["technique"],
            })
    na = []
    for pid in ALL:
        if pid in CHECKS: continue
        na.append({"property_id": pid, "reason": NOT_APPLICABLE.get(pid, PENDING_REASON)})
    m = {
        "version": 1,
        "setup_cmd": "./check build",
        "hooks": {
            "guard": "indicatif_verif",
            "enable": "RUSTFLAGS='--cfg indicatif_verif' via /verif/check; /repo/src is compiled through the generated shadow manifest /verif/shadow/Cargo.toml ([lib] path=/repo/src/lib.rs) which adds the verif_simrt dependency, so /repo/Cargo.toml's dependency tables and Cargo.lock stay untouched",
            "baseline_off_cmd": "cd /repo && cargo test --workspace --no-fail-fast --offline",
            "source_commits": HOOK_COMMITS,
            "add_only": True,
        },
        "engines": [{
            "name": "verif-sim",
            "path": "/verif/harness (binary target/release/verif), /verif/simrt (runtime shims)",
            "serves_properties": sorted(CHECKS.keys()),
            "kind_free_text": "deterministic simulation with fault injection: own seeded scheduler over real OS threads (one running at a time), virtual clock with discrete-event timers, simulated terminal (TermLike) with fault plan, simulated Read/Write/Async*/Stream/rayon plumbing, reference models and history oracles, minimiser and replay files",
        }],
        "checks": checks,
        "not_applicable": na,
        "notes": "Exit codes: 0 held, 1 VIOLATION (replay file under /verif/replays), 2 harness/build error (never a VIOLATION line). VERIF_SEED (default 1) selects the batch; VERIF_SCALE scales the number of runs. Open/fixed findings: /verif/known-findings.json.",
    }
    path = os.path.join(HERE, "MANIFEST.json")
    open(path, "w").write(json.dumps(m, indent=1) + "\n")
    try:
        import jsonschema
        jsonschema.validate(m, json.load(open("/root/.vp/MANIFEST.schema.json")))
        print("MANIFEST.json valid;", len(checks), "checks,", len(na), "not claimed")
    except ImportError:
        print("MANIFEST.json written (jsonschema not importable here)")

main()
