#!/bin/bash
# /verif/seed_recheck.sh [dir...] — re-run the checks recorded in seeded/<dir>/meta.json against
# /repo with the stored patch applied (git -C /repo apply; run; git -C /repo checkout -- .) and
# refresh verified_by_me.caught_by / missed_by. The demonstrations are not re-run (they do not
# depend on /verif). Evidence files of the unchanged tree are preserved.
set -u
cd "$(dirname "$0")" || exit 2
DIRS=${*:-$(ls seeded)}
rm -rf target/evidence.keep; cp -r evidence target/evidence.keep
for d in $DIRS; do
  p=/verif/seeded/$d/patch.diff
  [ -f $p ] || continue
  checks=$(python3 -c "import json;m=json.load(open('/verif/seeded/$d/meta.json'));print(' '.join(m.get('verified_by_me',{}).get('checks_run',[]) or [m.get('property','')]))")
  if ! git -C /repo apply $p 2>/dev/null; then echo "$d: PATCH DOES NOT APPLY"; continue; fi
  CAUGHT=""; MISSED=""
  for c in $checks; do
    out=$(./check $c quick 2>&1); rc=$?
    rule=$(echo "$out" | grep -m1 -o "violation of rule [A-Za-z0-9_.]*" | sed 's/violation of rule //')
    if [ $rc -eq 1 ]; then CAUGHT="$CAUGHT $c($rule)"; else MISSED="$MISSED $c(rc=$rc)"; fi
  done
  if [ -z "$CAUGHT" ] && [ -n "${RETRY_SEEDS:-}" ]; then
    # not caught at the default seed: try other seeds (recorded as such, e.g. C19(rule@seed2))
    for sd in $RETRY_SEEDS; do
      for c in $checks; do
        out=$(VERIF_SEED=$sd ./check $c quick 2>&1); rc=$?
        rule=$(echo "$out" | grep -m1 -o "violation of rule [A-Za-z0-9_.]*" | sed 's/violation of rule //')
        if [ $rc -eq 1 ]; then CAUGHT="$CAUGHT $c($rule@seed$sd)"; fi
      done
      [ -n "$CAUGHT" ] && break
    done
  fi
  git -C /repo checkout -- .
  rm -f replays/*.json
  echo "$d: caught_by=$CAUGHT missed_by=$MISSED"
  python3 - "$d" "$CAUGHT" "$MISSED" <<'PY'
import json,sys
d,c,m=sys.argv[1:4]
p=f"/verif/seeded/{d}/meta.json"; j=json.load(open(p))
v=j.setdefault('verified_by_me',{})
v['caught_by']=c.split(); v['missed_by']=m.split()
json.dump(j,open(p,'w'),indent=1)
PY
done
rm -rf evidence; mv target/evidence.keep evidence
