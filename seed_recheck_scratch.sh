#!/bin/bash
# /verif/seed_recheck_scratch.sh <lanes> <dir...> — quick regression pass over kept seeded changes
# on SCRATCH copies (a worktree of /repo and a copy of /verif per lane under /tmp/lane-<k>), several
# lanes in parallel; neither /repo nor /verif/evidence nor seeded/*/meta.json is touched. For each
# change the checks that caught it at the last recorded run (meta.json verified_by_me.caught_by) are
# run at the quick tier. Prints "<dir>: caught_by=.. missed_by=.." per change. The recorded results
# in meta.json come from seed_eval.sh / seed_recheck.sh (patch applied to /repo itself); this script
# only tells which of them need to be looked at again after a change of a generator.
set -u
cd "$(dirname "$0")" || exit 2
LANES=$1; shift
DIRS=("$@")
lane() {
  k=$1; shift
  S=/tmp/lane-$k
  rm -rf $S; mkdir -p $S
  git -C /repo worktree add --detach $S/repo HEAD >/dev/null 2>&1 || { echo "lane $k: no worktree"; return; }
  rsync -a --exclude .git --exclude evidence --exclude replays --exclude seeded /verif/ $S/verif/
  for d in "$@"; do
    p=/verif/seeded/$d/patch.diff
    [ -f $p ] || continue
    checks=$(python3 -c "
import json,re
m=json.load(open('/verif/seeded/$d/meta.json')).get('verified_by_me',{})
c=[re.sub(r'\(.*','',x) for x in m.get('caught_by',[])] or m.get('checks_run',[])
print(' '.join(dict.fromkeys(c)))")
    git -C $S/repo checkout -q -- . ; git -C $S/repo apply $p 2>/dev/null || { echo "$d: PATCH DOES NOT APPLY"; continue; }
    C=""; M=""
    for c in $checks; do
      out=$(cd $S/verif && VERIF_WORKERS=${LANE_WORKERS:-6} VERIF_REPO=$S/repo ./check $c quick 2>&1); rc=$?
      rule=$(echo "$out" | grep -m1 -o "violation of rule [A-Za-z0-9_.]*" | sed 's/violation of rule //')
      if [ $rc -eq 1 ]; then C="$C $c($rule)"; else M="$M $c(rc=$rc)"; fi
    done
    git -C $S/repo checkout -q -- .
    echo "$d: caught_by=$C missed_by=$M"
  done
  git -C /repo worktree remove --force $S/repo 2>/dev/null; rm -rf $S
}
for ((k=0; k<LANES; k++)); do
  mine=()
  for ((i=k; i<${#DIRS[@]}; i+=LANES)); do mine+=("${DIRS[$i]}"); done
  lane $k "${mine[@]}" &
done
wait
git -C /repo worktree prune
