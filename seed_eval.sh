#!/bin/bash
# /verif/seed_eval.sh <ID> <A|B> [checks...] — evaluate one seeded change produced by a sub-agent.
#  1. in the agent's scratch worktree /tmp/wt-<ID>: the patch applies to a clean HEAD, the existing
#     test suite passes with it, the demonstration fails with it and passes without it;
#  2. applies the patch to /repo, runs the listed checks (default: the property's own check, quick
#     tier), and undoes it straight afterwards;
#  3. stores patch.diff, demo.rs, meta.json (+ what was run and which checks caught it) under
#     /verif/seeded/<ID>-<A|B>/.
set -u
ID=$1; V=$2; shift 2
CHECKS=${*:-$ID}
WT=${WT_PREFIX:-/tmp/wt-}$ID
SRC=$WT/seeded/$V
OUT=/verif/seeded/$ID-${OUT_TAG:-}$V
[ -f $SRC/patch.diff ] || { echo "no $SRC/patch.diff"; exit 2; }
mkdir -p $OUT
cd $WT || exit 2
git checkout -q -- src 2>/dev/null; rm -f tests/seeded_demo.rs
res() { echo "$1" >> $OUT/eval.log; echo "$1"; }
: > $OUT/eval.log
if [ -n "${SKIP_WT:-}" ] && [ -f $OUT/wt.env ]; then
  # (worktree part done earlier by a PHASE=wt run, possibly in parallel with others)
  . $OUT/wt.env; res "demo_passes_without_change=$D0"; res "demo_fails_with_change=$D1"; res "existing_tests_pass=$T"
else
git apply --check $SRC/patch.diff 2>>$OUT/eval.log || { res "patch does not apply"; exit 1; }
# demo without the change
cp $SRC/demo.rs tests/seeded_demo.rs
if cargo test --offline --features in_memory,tokio,rayon,futures --test seeded_demo >/dev/null 2>&1; then res "demo_passes_without_change=true"; D0=true; else res "demo_passes_without_change=false"; D0=false; fi
git apply $SRC/patch.diff
if cargo test --offline --features in_memory,tokio,rayon,futures --test seeded_demo >/dev/null 2>&1; then res "demo_fails_with_change=false"; D1=false; else res "demo_fails_with_change=true"; D1=true; fi
rm -f tests/seeded_demo.rs
if cargo test --offline >/dev/null 2>&1; then res "existing_tests_pass=true"; T=true; else res "existing_tests_pass=false"; T=false; fi
git checkout -q -- src
echo "D0=$D0; D1=$D1; T=$T" > $OUT/wt.env
fi
[ "${PHASE:-}" = wt ] && exit 0
# against /repo with our checks
cd /verif
# (the evidence files are rewritten by every run: keep the ones of the unchanged tree)
rm -rf /verif/target/evidence.keep; cp -r /verif/evidence /verif/target/evidence.keep
git -C /repo apply $SRC/patch.diff || { res "patch does not apply to /repo"; exit 1; }
CAUGHT=""; MISSED=""
for c in $CHECKS; do
  out=$(./check $c quick 2>&1); rc=$?
  rule=$(echo "$out" | grep -m1 -o "violation of rule [A-Za-z0-9_.]*" | sed 's/violation of rule //')
  if [ $rc -eq 1 ]; then CAUGHT="$CAUGHT $c($rule)"; else MISSED="$MISSED $c(rc=$rc)"; fi
done
git -C /repo checkout -- .
rm -f /verif/replays/*.json
rm -rf /verif/evidence; mv /verif/target/evidence.keep /verif/evidence
res "caught_by=$CAUGHT"
res "missed_by=$MISSED"
cp $SRC/patch.diff $OUT/patch.diff; cp $SRC/demo.rs $OUT/demo.rs
python3 - "$SRC/meta.json" "$OUT/meta.json" "$D0" "$D1" "$T" "$CAUGHT" "$MISSED" "$CHECKS" <<'PY'
import json,sys
src,dst,d0,d1,t,caught,missed,checks=sys.argv[1:9]
try: m=json.load(open(src))
except Exception: m={}
m['verified_by_me']={'demo_passes_without_change':d0=='true','demo_fails_with_change':d1=='true','existing_tests_pass_with_change':t=='true',
 'commands':['git apply patch.diff (scratch worktree)','cargo test --offline','cargo test --offline --features in_memory,tokio,rayon,futures --test seeded_demo (with and without the change)','git -C /repo apply patch.diff; ./check <id> quick; git -C /repo checkout -- .'],
 'checks_run':checks.split(),'caught_by':caught.split(),'missed_by':missed.split()}
json.dump(m,open(dst,'w'),indent=1)
PY
