//! Virtual monotonic clock with the subset of `std::time::Instant`'s API that indicatif uses.
use std::ops::{Add, AddAssign, Sub, SubAssign};
use std::time::Duration;

#[derive(Clone, Copy, Debug, PartialEq, Eq, PartialOrd, Ord, Hash)]
pub struct Instant(u64);

fn dur_ns(d: Duration) -> Option<u64> {
    u64::try_from(d.as_nanos()).ok()
}

impl Instant {
    pub fn now() -> Instant {
        Instant(crate::sched::now_ns())
    }
    pub fn from_ns(ns: u64) -> Instant {
        Instant(ns)
    }
    pub fn as_ns(&self) -> u64 {
        self.0
    }
    pub fn duration_since(&self, earlier: Instant) -> Duration {
        Duration::from_nanos(self.0.saturating_sub(earlier.0))
    }
    pub fn checked_duration_since(&self, earlier: Instant) -> Option<Duration> {
        self.0.checked_sub(earlier.0).map(Duration::from_nanos)
    }
    pub fn saturating_duration_since(&self, earlier: Instant) -> Duration {
        Duration::from_nanos(self.0.saturating_sub(earlier.0))
    }
    pub fn elapsed(&self) -> Duration {
        Instant::now().duration_since(*self)
    }
    pub fn checked_add(&self, d: Duration) -> Option<Instant> {
        dur_ns(d).and_then(|n| self.0.checked_add(n)).map(Instant)
    }
    pub fn checked_sub(&self, d: Duration) -> Option<Instant> {
        dur_ns(d).and_then(|n| self.0.checked_sub(n)).map(Instant)
    }
}

impl Add<Duration> for Instant {
    type Output = Instant;
    fn add(self, d: Duration) -> Instant {
        self.checked_add(d).expect("overflow when adding duration to instant")
    }
}
impl AddAssign<Duration> for Instant {
    fn add_assign(&mut self, d: Duration) {
        *self = *self + d;
    }
}
impl Sub<Duration> for Instant {
    type Output = Instant;
    fn sub(self, d: Duration) -> Instant {
        self.checked_sub(d).expect("overflow when subtracting duration from instant")
    }
}
impl SubAssign<Duration> for Instant {
    fn sub_assign(&mut self, d: Duration) {
        *self = *self - d;
    }
}
impl Sub<Instant> for Instant {
    type Output = Duration;
    fn sub(self, other: Instant) -> Duration {
        self.duration_since(other)
    }
}
