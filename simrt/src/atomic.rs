//! The two atomics indicatif's `AtomicPosition` uses, with a scheduling point before every
//! operation (when the world asks for it), so that a non-atomic read-modify-write would be
//! interleaved by the scheduler.
pub use std::sync::atomic::Ordering;

use crate::sched::atomic_point;

#[derive(Debug, Default)]
pub struct AtomicU64(std::sync::atomic::AtomicU64);
#[derive(Debug, Default)]
pub struct AtomicU8(std::sync::atomic::AtomicU8);

macro_rules! imp {
    ($name:ident, $t:ty) => {
        impl $name {
            pub const fn new(v: $t) -> Self {
                Self(<std::sync::atomic::$name>::new(v))
            }
            pub fn load(&self, o: Ordering) -> $t {
                atomic_point();
                self.0.load(o)
            }
            pub fn store(&self, v: $t, o: Ordering) {
                atomic_point();
                self.0.store(v, o)
            }
            pub fn swap(&self, v: $t, o: Ordering) -> $t {
                atomic_point();
                self.0.swap(v, o)
            }
            pub fn fetch_add(&self, v: $t, o: Ordering) -> $t {
                atomic_point();
                self.0.fetch_add(v, o)
            }
            pub fn fetch_sub(&self, v: $t, o: Ordering) -> $t {
                atomic_point();
                self.0.fetch_sub(v, o)
            }
            pub fn fetch_max(&self, v: $t, o: Ordering) -> $t {
                atomic_point();
                self.0.fetch_max(v, o)
            }
            pub fn fetch_min(&self, v: $t, o: Ordering) -> $t {
                atomic_point();
                self.0.fetch_min(v, o)
            }
            pub fn compare_exchange(
                &self,
                cur: $t,
                new: $t,
                s: Ordering,
                f: Ordering,
            ) -> Result<$t, $t> {
                atomic_point();
                self.0.compare_exchange(cur, new, s, f)
            }
            pub fn compare_exchange_weak(
                &self,
                cur: $t,
                new: $t,
                s: Ordering,
                f: Ordering,
            ) -> Result<$t, $t> {
                atomic_point();
                self.0.compare_exchange_weak(cur, new, s, f)
            }
            pub fn fetch_update<F: FnMut($t) -> Option<$t>>(
                &self,
                s: Ordering,
                f: Ordering,
                func: F,
            ) -> Result<$t, $t> {
                atomic_point();
                self.0.fetch_update(s, f, func)
            }
            pub fn into_inner(self) -> $t {
                self.0.into_inner()
            }
            pub fn get_mut(&mut self) -> &mut $t {
                self.0.get_mut()
            }
        }
    };
}
imp!(AtomicU64, u64);
imp!(AtomicU8, u8);
