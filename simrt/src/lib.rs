//! verif_simrt — deterministic simulation runtime for console-rs/indicatif's verification.
//!
//! Provides drop-in replacements for `std::sync::{Mutex, RwLock, Condvar}`, `std::thread::{spawn,
//! JoinHandle}`, `std::time::Instant` and the two atomics used by indicatif, all of which are
//! controlled by a seeded scheduler and a virtual clock when the calling OS thread belongs to a
//! simulated `World`, and which degrade to plain std behaviour (with a process-wide manual
//! clock) otherwise.

pub mod atomic;
pub mod probe;
pub mod rng;
pub mod sched;
pub mod sync;
pub mod thread;
pub mod time;

pub use sched::{Config, Outcome, Strategy, World};
