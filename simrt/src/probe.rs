//! Reach counters ("this rare branch was hit").
pub fn hit(name: &'static str) {
    crate::sched::probe_hit(name);
}
