//! `std::sync::{Mutex, RwLock, Condvar}` under the simulator. The data, poisoning and
//! `LockResult`s are std's own: every shim wraps the std primitive and only touches it after
//! the scheduler has granted ownership, so the inner primitive is never contended inside a
//! world. Outside a world (no simulated thread) the shims are plain std primitives.

pub use std::sync::{Arc, LockResult, OnceLock, PoisonError, TryLockError, TryLockResult, Weak};

use std::ops::{Deref, DerefMut};
use std::sync::atomic::{AtomicU64, Ordering as AO};
use std::time::Duration;

use crate::sched::{self, current, Tid, Want, World};

/// Lazily assigned per-world resource index.
#[derive(Debug, Default)]
struct ResId(AtomicU64);

impl ResId {
    const fn new() -> Self {
        ResId(AtomicU64::new(0))
    }
    fn get(&self, w: &Arc<World>, alloc: fn(&Arc<World>) -> usize) -> usize {
        let v = self.0.load(AO::Relaxed);
        let serial = w.serial();
        if v != 0 && (v >> 24) == serial {
            return ((v & 0xff_ffff) - 1) as usize;
        }
        let idx = alloc(w);
        self.0.store((serial << 24) | (idx as u64 + 1), AO::Relaxed);
        idx
    }
}

// ------------------------------------------------------------------------------------------
// Mutex
// ------------------------------------------------------------------------------------------

#[derive(Debug, Default)]
pub struct Mutex<T: ?Sized> {
    id: ResId,
    inner: std::sync::Mutex<T>,
}

pub struct MutexGuard<'a, T: ?Sized + 'a> {
    lock: &'a Mutex<T>,
    inner: Option<std::sync::MutexGuard<'a, T>>,
    sim: Option<(Arc<World>, Tid, usize)>,
}

impl<T> Mutex<T> {
    pub const fn new(t: T) -> Self {
        Mutex {
            id: ResId::new(),
            inner: std::sync::Mutex::new(t),
        }
    }
    pub fn into_inner(self) -> LockResult<T> {
        self.inner.into_inner()
    }
}

impl<T: ?Sized> Mutex<T> {
    pub fn lock(&self) -> LockResult<MutexGuard<'_, T>> {
        let sim = match current() {
            Some((w, me)) => {
                let id = self.id.get(&w, sched::new_mutex_id);
                w.switch(me, Want::Mutex(id));
                Some((w, me, id))
            }
            None => None,
        };
        match self.inner.lock() {
            Ok(g) => Ok(MutexGuard {
                lock: self,
                inner: Some(g),
                sim,
            }),
            Err(p) => Err(PoisonError::new(MutexGuard {
                lock: self,
                inner: Some(p.into_inner()),
                sim,
            })),
        }
    }

    /// Non-blocking attempt: a scheduling point, then the lock is taken if the scheduler knows it
    /// to be free (the std lock is only touched once ownership was granted).
    pub fn try_lock(&self) -> TryLockResult<MutexGuard<'_, T>> {
        let sim = match current() {
            Some((w, me)) => {
                let id = self.id.get(&w, sched::new_mutex_id);
                w.switch(me, Want::Run);
                if !sched::try_acquire_mutex(&w, me, id) {
                    return Err(TryLockError::WouldBlock);
                }
                Some((w, me, id))
            }
            None => {
                return match self.inner.try_lock() {
                    Ok(g) => Ok(MutexGuard { lock: self, inner: Some(g), sim: None }),
                    Err(TryLockError::WouldBlock) => Err(TryLockError::WouldBlock),
                    Err(TryLockError::Poisoned(p)) => {
                        Err(TryLockError::Poisoned(PoisonError::new(MutexGuard { lock: self, inner: Some(p.into_inner()), sim: None })))
                    }
                };
            }
        };
        match self.inner.lock() {
            Ok(g) => Ok(MutexGuard { lock: self, inner: Some(g), sim }),
            Err(p) => Err(TryLockError::Poisoned(PoisonError::new(MutexGuard { lock: self, inner: Some(p.into_inner()), sim }))),
        }
    }

    pub fn is_poisoned(&self) -> bool {
        self.inner.is_poisoned()
    }

    pub fn clear_poison(&self) {
        self.inner.clear_poison()
    }

    pub fn get_mut(&mut self) -> LockResult<&mut T> {
        self.inner.get_mut()
    }
}

impl<T: ?Sized> Deref for MutexGuard<'_, T> {
    type Target = T;
    fn deref(&self) -> &T {
        self.inner.as_ref().unwrap()
    }
}
impl<T: ?Sized> DerefMut for MutexGuard<'_, T> {
    fn deref_mut(&mut self) -> &mut T {
        self.inner.as_mut().unwrap()
    }
}
impl<T: ?Sized> Drop for MutexGuard<'_, T> {
    fn drop(&mut self) {
        // std guard first (sets the poison flag when unwinding), then scheduler-side release
        self.inner.take();
        if let Some((w, me, id)) = self.sim.take() {
            sched::release_mutex(&w, me, id);
        }
    }
}
impl<T: ?Sized + std::fmt::Debug> std::fmt::Debug for MutexGuard<'_, T> {
    fn fmt(&self, f: &mut std::fmt::Formatter<'_>) -> std::fmt::Result {
        (**self).fmt(f)
    }
}

// ------------------------------------------------------------------------------------------
// Condvar
// ------------------------------------------------------------------------------------------

#[derive(Debug, Default)]
pub struct Condvar {
    id: ResId,
    inner: std::sync::Condvar,
}

#[derive(Debug, PartialEq, Eq, Copy, Clone)]
pub struct WaitTimeoutResult(bool);

impl WaitTimeoutResult {
    pub fn timed_out(&self) -> bool {
        self.0
    }
}

impl Condvar {
    pub const fn new() -> Self {
        Condvar {
            id: ResId::new(),
            inner: std::sync::Condvar::new(),
        }
    }

    fn wait_inner<'a, T>(
        &self,
        mut guard: MutexGuard<'a, T>,
        timeout: Option<Duration>,
    ) -> (LockResult<MutexGuard<'a, T>>, bool) {
        match guard.sim.clone() {
            Some((w, me, mid)) => {
                let cv = self.id.get(&w, sched::new_cv_id);
                let lock = guard.lock;
                // give up the std guard and the scheduler-side ownership
                guard.inner.take();
                guard.sim = None;
                drop(guard);
                let timed_out = sched::cv_wait(
                    &w,
                    me,
                    cv,
                    mid,
                    timeout.map(|d| u64::try_from(d.as_nanos()).unwrap_or(u64::MAX)),
                );
                (lock.lock(), timed_out)
            }
            None => {
                // passthrough
                let lock = guard.lock;
                let std_guard = guard.inner.take().unwrap();
                drop(guard);
                let wrap = |g| MutexGuard {
                    lock,
                    inner: Some(g),
                    sim: None,
                };
                match timeout {
                    None => match self.inner.wait(std_guard) {
                        Ok(g) => (Ok(wrap(g)), false),
                        Err(p) => (Err(PoisonError::new(wrap(p.into_inner()))), false),
                    },
                    Some(d) => match self.inner.wait_timeout(std_guard, d) {
                        Ok((g, r)) => (Ok(wrap(g)), r.timed_out()),
                        Err(p) => {
                            let (g, r) = p.into_inner();
                            (Err(PoisonError::new(wrap(g))), r.timed_out())
                        }
                    },
                }
            }
        }
    }

    pub fn wait<'a, T>(&self, guard: MutexGuard<'a, T>) -> LockResult<MutexGuard<'a, T>> {
        self.wait_inner(guard, None).0
    }

    pub fn wait_while<'a, T, F>(
        &self,
        mut guard: MutexGuard<'a, T>,
        mut condition: F,
    ) -> LockResult<MutexGuard<'a, T>>
    where
        F: FnMut(&mut T) -> bool,
    {
        while condition(&mut *guard) {
            guard = self.wait(guard)?;
        }
        Ok(guard)
    }

    pub fn wait_timeout<'a, T>(
        &self,
        guard: MutexGuard<'a, T>,
        dur: Duration,
    ) -> LockResult<(MutexGuard<'a, T>, WaitTimeoutResult)> {
        let (r, to) = self.wait_inner(guard, Some(dur));
        match r {
            Ok(g) => Ok((g, WaitTimeoutResult(to))),
            Err(p) => Err(PoisonError::new((p.into_inner(), WaitTimeoutResult(to)))),
        }
    }

    /// Line-for-line the loop of std's `Condvar::wait_timeout_while`, on the virtual clock.
    pub fn wait_timeout_while<'a, T, F>(
        &self,
        mut guard: MutexGuard<'a, T>,
        dur: Duration,
        mut condition: F,
    ) -> LockResult<(MutexGuard<'a, T>, WaitTimeoutResult)>
    where
        F: FnMut(&mut T) -> bool,
    {
        let start = crate::time::Instant::now();
        loop {
            if !condition(&mut *guard) {
                return Ok((guard, WaitTimeoutResult(false)));
            }
            // (a zero remainder counts as expired: the virtual clock does not move by itself,
            // whereas a real clock would have passed `dur` strictly an instant later)
            let timeout = match dur.checked_sub(start.elapsed()) {
                Some(timeout) if !timeout.is_zero() => timeout,
                _ => return Ok((guard, WaitTimeoutResult(true))),
            };
            guard = self.wait_timeout(guard, timeout)?.0;
        }
    }

    pub fn notify_one(&self) {
        match current() {
            Some((w, me)) => {
                let cv = self.id.get(&w, sched::new_cv_id);
                sched::cv_notify(&w, me, cv, false);
                // notifying is a visible operation: scheduling point after it
                w.switch(me, Want::Run);
            }
            None => self.inner.notify_one(),
        }
    }

    pub fn notify_all(&self) {
        match current() {
            Some((w, me)) => {
                let cv = self.id.get(&w, sched::new_cv_id);
                sched::cv_notify(&w, me, cv, true);
                w.switch(me, Want::Run);
            }
            None => self.inner.notify_all(),
        }
    }
}

// ------------------------------------------------------------------------------------------
// RwLock
// ------------------------------------------------------------------------------------------

#[derive(Debug, Default)]
pub struct RwLock<T: ?Sized> {
    id: ResId,
    inner: std::sync::RwLock<T>,
}

pub struct RwLockReadGuard<'a, T: ?Sized + 'a> {
    inner: Option<std::sync::RwLockReadGuard<'a, T>>,
    sim: Option<(Arc<World>, Tid, usize)>,
}

pub struct RwLockWriteGuard<'a, T: ?Sized + 'a> {
    inner: Option<std::sync::RwLockWriteGuard<'a, T>>,
    sim: Option<(Arc<World>, Tid, usize)>,
}

impl<T> RwLock<T> {
    pub const fn new(t: T) -> Self {
        RwLock {
            id: ResId::new(),
            inner: std::sync::RwLock::new(t),
        }
    }
    pub fn into_inner(self) -> LockResult<T> {
        self.inner.into_inner()
    }
}

impl<T: ?Sized> RwLock<T> {
    pub fn read(&self) -> LockResult<RwLockReadGuard<'_, T>> {
        let sim = match current() {
            Some((w, me)) => {
                let id = self.id.get(&w, sched::new_rw_id);
                w.switch(me, Want::RwRead(id));
                Some((w, me, id))
            }
            None => None,
        };
        match self.inner.read() {
            Ok(g) => Ok(RwLockReadGuard {
                inner: Some(g),
                sim,
            }),
            Err(p) => Err(PoisonError::new(RwLockReadGuard {
                inner: Some(p.into_inner()),
                sim,
            })),
        }
    }

    pub fn write(&self) -> LockResult<RwLockWriteGuard<'_, T>> {
        let sim = match current() {
            Some((w, me)) => {
                let id = self.id.get(&w, sched::new_rw_id);
                w.switch(me, Want::RwWrite(id));
                Some((w, me, id))
            }
            None => None,
        };
        match self.inner.write() {
            Ok(g) => Ok(RwLockWriteGuard {
                inner: Some(g),
                sim,
            }),
            Err(p) => Err(PoisonError::new(RwLockWriteGuard {
                inner: Some(p.into_inner()),
                sim,
            })),
        }
    }

    /// Non-blocking attempts (a scheduling point, then granted only if free)
    pub fn try_read(&self) -> TryLockResult<RwLockReadGuard<'_, T>> {
        let sim = match current() {
            Some((w, me)) => {
                let id = self.id.get(&w, sched::new_rw_id);
                w.switch(me, Want::Run);
                if !sched::try_acquire_rw(&w, me, id, false) {
                    return Err(TryLockError::WouldBlock);
                }
                Some((w, me, id))
            }
            None => {
                return match self.inner.try_read() {
                    Ok(g) => Ok(RwLockReadGuard { inner: Some(g), sim: None }),
                    Err(TryLockError::WouldBlock) => Err(TryLockError::WouldBlock),
                    Err(TryLockError::Poisoned(p)) => Err(TryLockError::Poisoned(PoisonError::new(RwLockReadGuard { inner: Some(p.into_inner()), sim: None }))),
                };
            }
        };
        match self.inner.read() {
            Ok(g) => Ok(RwLockReadGuard { inner: Some(g), sim }),
            Err(p) => Err(TryLockError::Poisoned(PoisonError::new(RwLockReadGuard { inner: Some(p.into_inner()), sim }))),
        }
    }

    pub fn try_write(&self) -> TryLockResult<RwLockWriteGuard<'_, T>> {
        let sim = match current() {
            Some((w, me)) => {
                let id = self.id.get(&w, sched::new_rw_id);
                w.switch(me, Want::Run);
                if !sched::try_acquire_rw(&w, me, id, true) {
                    return Err(TryLockError::WouldBlock);
                }
                Some((w, me, id))
            }
            None => {
                return match self.inner.try_write() {
                    Ok(g) => Ok(RwLockWriteGuard { inner: Some(g), sim: None }),
                    Err(TryLockError::WouldBlock) => Err(TryLockError::WouldBlock),
                    Err(TryLockError::Poisoned(p)) => Err(TryLockError::Poisoned(PoisonError::new(RwLockWriteGuard { inner: Some(p.into_inner()), sim: None }))),
                };
            }
        };
        match self.inner.write() {
            Ok(g) => Ok(RwLockWriteGuard { inner: Some(g), sim }),
            Err(p) => Err(TryLockError::Poisoned(PoisonError::new(RwLockWriteGuard { inner: Some(p.into_inner()), sim }))),
        }
    }

    pub fn is_poisoned(&self) -> bool {
        self.inner.is_poisoned()
    }

    pub fn get_mut(&mut self) -> LockResult<&mut T> {
        self.inner.get_mut()
    }
}

impl<T: ?Sized> Deref for RwLockReadGuard<'_, T> {
    type Target = T;
    fn deref(&self) -> &T {
        self.inner.as_ref().unwrap()
    }
}
impl<T: ?Sized> Drop for RwLockReadGuard<'_, T> {
    fn drop(&mut self) {
        self.inner.take();
        if let Some((w, me, id)) = self.sim.take() {
            sched::release_read(&w, me, id);
        }
    }
}
impl<T: ?Sized> Deref for RwLockWriteGuard<'_, T> {
    type Target = T;
    fn deref(&self) -> &T {
        self.inner.as_ref().unwrap()
    }
}
impl<T: ?Sized> DerefMut for RwLockWriteGuard<'_, T> {
    fn deref_mut(&mut self) -> &mut T {
        self.inner.as_mut().unwrap()
    }
}
impl<T: ?Sized> Drop for RwLockWriteGuard<'_, T> {
    fn drop(&mut self) {
        self.inner.take();
        if let Some((w, me, id)) = self.sim.take() {
            sched::release_write(&w, me, id);
        }
    }
}
impl<T: ?Sized + std::fmt::Debug> std::fmt::Debug for RwLockReadGuard<'_, T> {
    fn fmt(&self, f: &mut std::fmt::Formatter<'_>) -> std::fmt::Result {
        (**self).fmt(f)
    }
}
impl<T: ?Sized + std::fmt::Debug> std::fmt::Debug for RwLockWriteGuard<'_, T> {
    fn fmt(&self, f: &mut std::fmt::Formatter<'_>) -> std::fmt::Result {
        (**self).fmt(f)
    }
}
