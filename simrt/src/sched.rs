//! The simulator core: one `World` per simulated run. Simulated threads are real OS threads,
//! but exactly one of them runs at any time; every other one is parked on its own condvar.
//! All decisions (who runs next, spurious wake-ups, clock jitter) come from the world's PRNG,
//! or from a recorded schedule when replaying.

use std::cell::RefCell;
use std::collections::BTreeMap;
use std::sync::atomic::{AtomicU64, Ordering as AO};
use std::sync::{Arc, Condvar as StdCondvar, Mutex as StdMutex, MutexGuard as StdGuard};

use crate::rng::Rng;

pub type Tid = usize;
pub const EPOCH_NS: u64 = 1_000_000_000_000_000_000; // virtual clock starts here

#[derive(Clone, Debug, PartialEq)]
pub enum Strategy {
    /// uniformly random among enabled threads
    Random,
    /// keep running the current thread with probability p/1000, else uniform among the others
    Sticky(u32),
    /// PCT-style: random priorities, `depth - 1` priority change points within `expected_steps`
    Pct { depth: u32, expected_steps: u32 },
}

#[derive(Clone, Debug)]
pub struct Config {
    pub seed: u64,
    pub strategy: Strategy,
    pub step_cap: u64,
    /// every `Instant::now()` first advances the clock by a PRNG amount in 0..=now_jitter_ns
    pub now_jitter_ns: u64,
    /// probability (per mille) that a condvar wait is woken spuriously
    pub spurious_per_mille: u32,
    /// whether the shimmed atomics are scheduling points
    pub atomics_yield: bool,
    pub record_events: bool,
    /// follow this list of thread ids at scheduling points (fallback: lowest enabled tid)
    pub replay: Option<Vec<u32>>,
    /// RwLock fairness of std on Linux: a reader does not get the lock while a writer is waiting
    /// for it (so a second read() by a thread that already holds a read guard can block for good)
    pub rw_writer_pref: bool,
}

impl Config {
    pub fn sequential(seed: u64) -> Self {
        Config {
            seed,
            strategy: Strategy::Random,
            step_cap: 2_000_000,
            now_jitter_ns: 0,
            spurious_per_mille: 0,
            atomics_yield: false,
            record_events: false,
            replay: None,
            rw_writer_pref: false,
        }
    }
}

#[derive(Clone, Copy, Debug, PartialEq, Eq)]
pub enum Want {
    Run,
    Mutex(usize),
    RwRead(usize),
    RwWrite(usize),
    Join(Tid),
    CvWait {
        cv: usize,
        deadline: Option<u64>,
        notified: bool,
        spurious: bool,
    },
    Sleep(u64),
}

#[derive(Clone, Copy, Debug, PartialEq, Eq)]
pub struct Event {
    pub step: u64,
    pub tid: u32,
    pub kind: u8,
    pub arg: u64,
    pub clock: u64,
}

pub mod ev {
    pub const SCHED: u8 = 1; // arg = want kind<<32 | resource
    pub const SPAWN: u8 = 2;
    pub const EXIT: u8 = 3;
    pub const TIMER_JUMP: u8 = 4;
    pub const NOTIFY: u8 = 5;
    pub const PANIC: u8 = 6;
    pub const USER: u8 = 7;
    pub const ADVANCE: u8 = 8;
    pub const RELEASE: u8 = 9;
    pub const TRY: u8 = 10; // arg = kind<<32 | success<<31 | resource
}

struct Th {
    want: Want,
    finished: bool,
    cv: Arc<StdCondvar>,
    no_time_depth: u32,
    timed_out: bool,
    priority: u64,
    name: String,
}

#[derive(Default)]
struct RwSt {
    writer: Option<Tid>,
    readers: Vec<Tid>,
}

pub struct Inner {
    cfg: Config,
    rng: Rng,
    fault_rng: Rng,
    clock: u64,
    threads: Vec<Th>,
    current: usize,
    mutex_owner: Vec<Option<Tid>>,
    rw: Vec<RwSt>,
    n_condvars: usize,
    steps: u64,
    done: bool,
    aborted: bool,
    deadlock: Option<String>,
    step_cap_hit: bool,
    no_time_violation: Option<String>,
    thread_panics: Vec<(Tid, String)>,
    schedule: Vec<u32>,
    sig: u64,
    events: Vec<Event>,
    probes: BTreeMap<&'static str, u64>,
    context_switches: u64,
    timer_jumps: u64,
    spurious_wakes: u64,
    multi_enabled_points: u64,
    pct_change_points: Vec<u64>,
    replay_pos: usize,
    replay_divergence: u64,
}

pub struct World {
    inner: StdMutex<Inner>,
    done_cv: StdCondvar,
    serial: u64,
}

#[derive(Clone, Debug, Default)]
pub struct Outcome {
    pub steps: u64,
    pub clock_end_ns: u64,
    pub deadlock: Option<String>,
    pub step_cap_hit: bool,
    pub no_time_violation: Option<String>,
    pub thread_panics: Vec<(Tid, String)>,
    pub schedule: Vec<u32>,
    pub sig: u64,
    pub events: Vec<Event>,
    pub probes: BTreeMap<&'static str, u64>,
    pub threads_spawned: usize,
    pub context_switches: u64,
    pub timer_jumps: u64,
    pub spurious_wakes: u64,
    pub multi_enabled_points: u64,
    pub replay_divergence: u64,
}

static WORLD_SERIAL: AtomicU64 = AtomicU64::new(1);

thread_local! {
    static CUR: RefCell<Option<(Arc<World>, Tid)>> = const { RefCell::new(None) };
}

/// The current world and simulated thread id of the calling OS thread, if any.
pub fn current() -> Option<(Arc<World>, Tid)> {
    CUR.with(|c| c.borrow().clone())
}

pub fn in_world() -> bool {
    CUR.with(|c| c.borrow().is_some())
}

fn fnv(h: u64, x: u64) -> u64 {
    let mut h = h;
    for i in 0..8 {
        h ^= (x >> (i * 8)) & 0xff;
        h = h.wrapping_mul(0x0000_0100_0000_01B3);
    }
    h
}

fn want_code(w: &Want) -> u64 {
    match w {
        Want::Run => 1 << 32,
        Want::Mutex(i) => (2 << 32) | *i as u64,
        Want::RwRead(i) => (3 << 32) | *i as u64,
        Want::RwWrite(i) => (4 << 32) | *i as u64,
        Want::Join(t) => (5 << 32) | *t as u64,
        Want::CvWait { cv, .. } => (6 << 32) | *cv as u64,
        Want::Sleep(_) => 7 << 32,
    }
}

impl Inner {
    fn log(&mut self, tid: Tid, kind: u8, arg: u64) {
        self.sig = fnv(fnv(fnv(self.sig, tid as u64), kind as u64), arg);
        if self.cfg.record_events {
            self.events.push(Event {
                step: self.steps,
                tid: tid as u32,
                kind,
                arg,
                clock: self.clock,
            });
        }
    }

    fn enabled(&self, t: Tid) -> bool {
        let th = &self.threads[t];
        if th.finished {
            return false;
        }
        match th.want {
            Want::Run => true,
            Want::Mutex(id) => self.mutex_owner[id].is_none(),
            Want::RwRead(id) => self.rw[id].writer.is_none() && self.waiting_writer(id, t).is_none(),
            Want::RwWrite(id) => self.rw[id].writer.is_none() && self.rw[id].readers.is_empty(),
            Want::Join(t2) => self.threads[t2].finished,
            Want::CvWait {
                deadline,
                notified,
                spurious,
                ..
            } => notified || spurious || deadline.map_or(false, |d| d <= self.clock),
            Want::Sleep(d) => d <= self.clock,
        }
    }

    /// (writer preference only) a thread other than `t` that waits to write-lock rwlock `id`
    /// while readers hold it
    fn waiting_writer(&self, id: usize, t: Tid) -> Option<Tid> {
        if !self.cfg.rw_writer_pref || self.rw[id].readers.is_empty() {
            return None;
        }
        (0..self.threads.len()).find(|t2| *t2 != t && !self.threads[*t2].finished && matches!(self.threads[*t2].want, Want::RwWrite(i) if i == id))
    }

    fn enabled_set(&self) -> Vec<Tid> {
        (0..self.threads.len()).filter(|t| self.enabled(*t)).collect()
    }

    fn next_deadline(&self) -> Option<(u64, Tid)> {
        let mut best: Option<(u64, Tid)> = None;
        for (t, th) in self.threads.iter().enumerate() {
            if th.finished {
                continue;
            }
            let d = match th.want {
                Want::CvWait {
                    deadline: Some(d),
                    notified: false,
                    ..
                } => d,
                Want::Sleep(d) => d,
                _ => continue,
            };
            if best.map_or(true, |(bd, _)| d < bd) {
                best = Some((d, t));
            }
        }
        best
    }

    /// Follow the wait-for chain starting at `t`; returns the thread at the end of the chain.
    fn chain_end(&self, t: Tid) -> Tid {
        let mut cur = t;
        for _ in 0..self.threads.len() + 2 {
            let next = match self.threads[cur].want {
                Want::Join(t2) => Some(t2),
                Want::Mutex(id) => self.mutex_owner[id],
                Want::RwRead(id) => self.rw[id].writer.or(self.waiting_writer(id, cur)),
                Want::RwWrite(id) => self.rw[id].writer.or(self.rw[id].readers.first().copied()),
                _ => None,
            };
            match next {
                Some(n) if n != cur => cur = n,
                _ => break,
            }
        }
        cur
    }

    /// A cycle of hard wait-for edges (mutex owner, rwlock holder, join target): a deadlock that
    /// stays one whatever the other threads and timers do. Returns a thread on the cycle.
    fn wait_cycle(&self) -> Option<Tid> {
        for start in 0..self.threads.len() {
            if self.threads[start].finished {
                continue;
            }
            let mut seen: Vec<Tid> = vec![start];
            let mut cur = start;
            loop {
                let next = match self.threads[cur].want {
                    Want::Join(t2) if !self.threads[t2].finished => Some(t2),
                    Want::Mutex(id) => self.mutex_owner[id],
                    Want::RwRead(id) => self.rw[id].writer.or(self.waiting_writer(id, cur)),
                    Want::RwWrite(id) => self.rw[id].writer.or(self.rw[id].readers.first().copied()),
                    _ => None,
                };
                match next {
                    Some(n) if n == start && seen.len() > 1 => return Some(start),
                    Some(n) if n != cur && !seen.contains(&n) => {
                        seen.push(n);
                        cur = n;
                    }
                    _ => break,
                }
            }
        }
        None
    }

    fn describe_waits(&self) -> String {
        let mut s = String::new();
        for (t, th) in self.threads.iter().enumerate() {
            if th.finished {
                continue;
            }
            let what = match th.want {
                Want::Run => "runnable".to_string(),
                Want::Mutex(id) => format!("mutex#{id} owned by t{:?}", self.mutex_owner[id]),
                Want::RwRead(id) => format!("rwlock#{id}.read writer=t{:?} waiting writer=t{:?} readers={:?}", self.rw[id].writer, self.waiting_writer(id, t), self.rw[id].readers),
                Want::RwWrite(id) => format!(
                    "rwlock#{id}.write writer=t{:?} readers={:?}",
                    self.rw[id].writer, self.rw[id].readers
                ),
                Want::Join(t2) => format!("join t{t2}"),
                Want::CvWait { cv, deadline, .. } => format!("condvar#{cv} deadline={deadline:?}"),
                Want::Sleep(d) => format!("sleep until {d}"),
            };
            s.push_str(&format!("t{t}({}) waits for {what}; ", th.name));
        }
        s
    }

    /// Choose the next thread to run. Returns None when the world is stuck (deadlock) —
    /// after having fired timers as far as possible.
    fn choose(&mut self, me: Option<Tid>) -> Option<Tid> {
        let mut en = self.enabled_set();
        while en.is_empty() {
            match self.next_deadline() {
                Some((d, t)) => {
                    // prompt-stop rule: a thread inside a no-time scope must not depend on a
                    // timed condvar wait expiring
                    if self.no_time_violation.is_none() {
                        for h in 0..self.threads.len() {
                            if self.threads[h].no_time_depth > 0 && !self.threads[h].finished {
                                let end = self.chain_end(h);
                                if end == t
                                    && matches!(self.threads[t].want, Want::CvWait { .. })
                                    && end != h
                                {
                                    self.no_time_violation = Some(format!(
                                        "t{h}({}) is inside a no-time scope and can only proceed when the timed wait of t{t}({}) expires (clock jump of {} ns); {}",
                                        self.threads[h].name,
                                        self.threads[t].name,
                                        d.saturating_sub(self.clock),
                                        self.describe_waits()
                                    ));
                                }
                            }
                        }
                    }
                    if d > self.clock {
                        self.clock = d;
                    }
                    self.timer_jumps += 1;
                    self.log(t, ev::TIMER_JUMP, d);
                    en = self.enabled_set();
                }
                None => return None,
            }
        }
        if en.len() > 1 {
            self.multi_enabled_points += 1;
        }
        // replay
        if let Some(rp) = &self.cfg.replay {
            let pick = if self.replay_pos < rp.len() {
                let want = rp[self.replay_pos] as usize;
                self.replay_pos += 1;
                if en.contains(&want) {
                    want
                } else {
                    self.replay_divergence += 1;
                    en[0]
                }
            } else {
                // past the end of the recorded schedule: keep running the current thread if
                // possible (fewest context switches), else the lowest tid
                match me {
                    Some(m) if en.contains(&m) => m,
                    _ => en[0],
                }
            };
            return Some(pick);
        }
        if en.len() == 1 {
            return Some(en[0]);
        }
        let pick = match self.cfg.strategy.clone() {
            Strategy::Random => en[self.rng.usize_below(en.len())],
            Strategy::Sticky(p) => match me {
                Some(m) if en.contains(&m) && self.rng.below(1000) < p as u64 => m,
                _ => en[self.rng.usize_below(en.len())],
            },
            Strategy::Pct { .. } => {
                if self.pct_change_points.contains(&self.steps) {
                    // demote the currently highest-priority enabled thread
                    let hi = *en
                        .iter()
                        .max_by_key(|t| self.threads[**t].priority)
                        .unwrap();
                    let low = self.threads.iter().map(|t| t.priority).min().unwrap_or(1);
                    self.threads[hi].priority = low.saturating_sub(1);
                }
                *en.iter()
                    .max_by_key(|t| self.threads[**t].priority)
                    .unwrap()
            }
        };
        Some(pick)
    }

    fn grant(&mut self, t: Tid) {
        let w = self.threads[t].want;
        match w {
            Want::Run | Want::Join(_) | Want::Sleep(_) => {}
            Want::Mutex(id) => self.mutex_owner[id] = Some(t),
            Want::RwRead(id) => self.rw[id].readers.push(t),
            Want::RwWrite(id) => self.rw[id].writer = Some(t),
            Want::CvWait {
                notified, spurious, ..
            } => {
                self.threads[t].timed_out = !notified && !spurious;
                if !notified && spurious {
                    self.spurious_wakes += 1;
                }
            }
        }
        self.threads[t].want = Want::Run;
        self.schedule.push(t as u32);
        self.log(t, ev::SCHED, want_code(&w));
    }

    fn abort(&mut self, why_deadlock: Option<String>) {
        self.aborted = true;
        self.done = true;
        self.current = usize::MAX;
        if let Some(w) = why_deadlock {
            self.deadlock = Some(w);
        }
    }
}

impl World {
    fn lock(&self) -> StdGuard<'_, Inner> {
        match self.inner.lock() {
            Ok(g) => g,
            Err(p) => p.into_inner(),
        }
    }

    pub fn serial(&self) -> u64 {
        self.serial
    }

    /// Park the calling OS thread forever (used after an abort: the world is dead).
    fn park_forever(&self, g: StdGuard<'_, Inner>) -> ! {
        drop(g);
        loop {
            std::thread::park();
        }
    }

    /// The heart: thread `me` (currently running) declares what it wants next; some enabled
    /// thread is chosen and granted; returns when `me` has been chosen and granted.
    pub fn switch(self: &Arc<Self>, me: Tid, want: Want) {
        let mut g = self.lock();
        if g.aborted {
            self.park_forever(g);
        }
        debug_assert_eq!(g.current, me, "switch called by a thread that is not current");
        g.steps += 1;
        g.threads[me].want = want;
        // a deadlock among some threads while others (a steady ticker, say) keep the world busy
        // never shows as "nothing runnable": look for a wait-for cycle now and then
        if g.steps % 512 == 0 || g.steps > g.cfg.step_cap {
            if g.wait_cycle().is_some() {
                let d = format!("wait-for cycle (other threads still running): {}", g.describe_waits());
                g.abort(Some(d));
                self.done_cv.notify_all();
                self.park_forever(g);
            }
        }
        if g.steps > g.cfg.step_cap {
            g.step_cap_hit = true;
            g.abort(None);
            self.done_cv.notify_all();
            self.park_forever(g);
        }
        let next = match g.choose(Some(me)) {
            Some(n) => n,
            None => {
                let d = g.describe_waits();
                g.abort(Some(d));
                self.done_cv.notify_all();
                self.park_forever(g);
            }
        };
        g.grant(next);
        if next != me {
            g.context_switches += 1;
            g.current = next;
            let cv = g.threads[next].cv.clone();
            cv.notify_one();
            let mycv = g.threads[me].cv.clone();
            while g.current != me {
                g = match mycv.wait(g) {
                    Ok(g) => g,
                    Err(p) => p.into_inner(),
                };
            }
        }
    }

    /// Called by a simulated thread when its body has returned (or panicked).
    fn finish_thread(self: &Arc<Self>, me: Tid, panic_msg: Option<String>) {
        let mut g = self.lock();
        if g.aborted {
            return;
        }
        g.threads[me].finished = true;
        g.log(me, ev::EXIT, 0);
        if let Some(m) = panic_msg {
            g.log(me, ev::PANIC, 0);
            g.thread_panics.push((me, m));
        }
        if g.threads.iter().all(|t| t.finished) {
            g.done = true;
            g.current = usize::MAX;
            self.done_cv.notify_all();
            return;
        }
        g.steps += 1;
        match g.choose(None) {
            Some(next) => {
                g.grant(next);
                g.context_switches += 1;
                g.current = next;
                let cv = g.threads[next].cv.clone();
                cv.notify_one();
            }
            None => {
                let d = g.describe_waits();
                g.abort(Some(d));
                self.done_cv.notify_all();
            }
        }
    }

    fn new_thread(&self, g: &mut Inner, name: String) -> Tid {
        let prio = g.rng.next_u64() | (1 << 63);
        g.threads.push(Th {
            want: Want::Run,
            finished: false,
            cv: Arc::new(StdCondvar::new()),
            no_time_depth: 0,
            timed_out: false,
            priority: prio,
            name,
        });
        g.threads.len() - 1
    }

    /// Run `f` as simulated thread 0 of a fresh world; blocks the calling (harness) thread
    /// until every simulated thread has finished, or the world aborted.
    pub fn run<R: Send + 'static>(
        cfg: Config,
        f: impl FnOnce() -> R + Send + 'static,
    ) -> (Option<R>, Outcome) {
        let mut rng = Rng::new(crate::rng::mix(&[cfg.seed, 0x5C4E_D01E]));
        let fault_rng = Rng::new(crate::rng::mix(&[cfg.seed, 0xFA01_7000]));
        let mut pct_change_points = vec![];
        if let Strategy::Pct {
            depth,
            expected_steps,
        } = cfg.strategy
        {
            for _ in 1..depth {
                pct_change_points.push(rng.below(expected_steps.max(1) as u64) + 1);
            }
        }
        let world = Arc::new(World {
            inner: StdMutex::new(Inner {
                cfg,
                rng,
                fault_rng,
                clock: EPOCH_NS,
                threads: vec![],
                current: 0,
                mutex_owner: vec![],
                rw: vec![],
                n_condvars: 0,
                steps: 0,
                done: false,
                aborted: false,
                deadlock: None,
                step_cap_hit: false,
                no_time_violation: None,
                thread_panics: vec![],
                schedule: vec![],
                sig: 0xcbf2_9ce4_8422_2325,
                events: vec![],
                probes: BTreeMap::new(),
                context_switches: 0,
                timer_jumps: 0,
                spurious_wakes: 0,
                multi_enabled_points: 0,
                pct_change_points,
                replay_pos: 0,
                replay_divergence: 0,
            }),
            done_cv: StdCondvar::new(),
            serial: WORLD_SERIAL.fetch_add(1, AO::Relaxed),
        });
        {
            let mut g = world.lock();
            let t0 = world.new_thread(&mut g, "main".into());
            debug_assert_eq!(t0, 0);
            g.current = 0;
        }
        let result: Arc<StdMutex<Option<R>>> = Arc::new(StdMutex::new(None));
        let r2 = result.clone();
        let w2 = world.clone();
        run_on_carrier(Box::new(move || {
            CUR.with(|c| *c.borrow_mut() = Some((w2.clone(), 0)));
            let res = std::panic::catch_unwind(std::panic::AssertUnwindSafe(f));
            let msg = match res {
                Ok(r) => {
                    *r2.lock().unwrap() = Some(r);
                    None
                }
                Err(p) => Some(panic_message(&p)),
            };
            CUR.with(|c| *c.borrow_mut() = None);
            w2.finish_thread(0, msg);
        }));
        // wait for completion
        let outcome = {
            let mut g = world.lock();
            while !g.done {
                g = match world.done_cv.wait(g) {
                    Ok(g) => g,
                    Err(p) => p.into_inner(),
                };
            }
            Outcome {
                steps: g.steps,
                clock_end_ns: g.clock,
                deadlock: g.deadlock.clone(),
                step_cap_hit: g.step_cap_hit,
                no_time_violation: g.no_time_violation.clone(),
                thread_panics: g.thread_panics.clone(),
                schedule: std::mem::take(&mut g.schedule),
                sig: g.sig,
                events: std::mem::take(&mut g.events),
                probes: g.probes.clone(),
                threads_spawned: g.threads.len(),
                context_switches: g.context_switches,
                timer_jumps: g.timer_jumps,
                spurious_wakes: g.spurious_wakes,
                multi_enabled_points: g.multi_enabled_points,
                replay_divergence: g.replay_divergence,
            }
        };
        let aborted = outcome.deadlock.is_some() || outcome.step_cap_hit;
        if aborted {
            // parked carrier threads are leaked on purpose (see DESIGN §3.2); thread 0's result
            // is handed out if it had finished before the abort
            let r = result.lock().ok().and_then(|mut g| g.take());
            (r, outcome)
        } else {
            let r = result.lock().unwrap().take();
            (r, outcome)
        }
    }
}


// ------------------------------------------------------------------------------------------
// Carrier pool: simulated threads run on pooled OS threads. Creating an OS thread per simulated
// thread serialises all harness workers on the process-wide mmap lock; pooled carriers do not.
// ------------------------------------------------------------------------------------------

type Job = Box<dyn FnOnce() + Send + 'static>;

struct Carrier {
    tx: std::sync::mpsc::Sender<Job>,
}

static IDLE: StdMutex<Vec<Carrier>> = StdMutex::new(Vec::new());
static CARRIERS_CREATED: AtomicU64 = AtomicU64::new(0);

pub fn carriers_created() -> u64 {
    CARRIERS_CREATED.load(AO::Relaxed)
}

fn run_on_carrier(job: Job) {
    let c = { IDLE.lock().unwrap_or_else(|p| p.into_inner()).pop() };
    let c = match c {
        Some(c) => c,
        None => {
            let (tx, rx) = std::sync::mpsc::channel::<Job>();
            let n = CARRIERS_CREATED.fetch_add(1, AO::Relaxed);
            let tx2 = tx.clone();
            std::thread::Builder::new()
                .stack_size(1 << 20)
                .name(format!("sim-carrier-{n}"))
                .spawn(move || {
                    while let Ok(job) = rx.recv() {
                        job();
                        // back to the pool
                        IDLE.lock()
                            .unwrap_or_else(|p| p.into_inner())
                            .push(Carrier { tx: tx2.clone() });
                    }
                })
                .expect("spawn carrier thread");
            Carrier { tx }
        }
    };
    c.tx.send(job).expect("carrier alive");
}

pub fn panic_message(p: &Box<dyn std::any::Any + Send>) -> String {
    if let Some(s) = p.downcast_ref::<&str>() {
        s.to_string()
    } else if let Some(s) = p.downcast_ref::<String>() {
        s.clone()
    } else {
        "<non-string panic>".to_string()
    }
}

// ------------------------------------------------------------------------------------------
// Operations used by the shims (all are no-ops / passthrough outside a world)
// ------------------------------------------------------------------------------------------

/// Resource registration: returns a fresh index in the current world.
pub(crate) fn new_mutex_id(w: &Arc<World>) -> usize {
    let mut g = w.lock();
    g.mutex_owner.push(None);
    g.mutex_owner.len() - 1
}
pub(crate) fn new_rw_id(w: &Arc<World>) -> usize {
    let mut g = w.lock();
    g.rw.push(RwSt::default());
    g.rw.len() - 1
}
pub(crate) fn new_cv_id(w: &Arc<World>) -> usize {
    let mut g = w.lock();
    g.n_condvars += 1;
    g.n_condvars - 1
}

/// Non-blocking acquisition for `try_lock`: granted only if free right now.
pub(crate) fn try_acquire_mutex(w: &Arc<World>, me: Tid, id: usize) -> bool {
    let mut g = w.lock();
    let free = g.mutex_owner[id].is_none();
    if free {
        g.mutex_owner[id] = Some(me);
    }
    g.log(me, ev::TRY, (2 << 32) | ((free as u64) << 31) | id as u64);
    free
}
pub(crate) fn try_acquire_rw(w: &Arc<World>, me: Tid, id: usize, write: bool) -> bool {
    let mut g = w.lock();
    let free = if write { g.rw[id].writer.is_none() && g.rw[id].readers.is_empty() } else { g.rw[id].writer.is_none() };
    if free {
        if write {
            g.rw[id].writer = Some(me);
        } else {
            g.rw[id].readers.push(me);
        }
    }
    g.log(me, ev::TRY, ((3 + write as u64) << 32) | ((free as u64) << 31) | id as u64);
    free
}

pub(crate) fn release_mutex(w: &Arc<World>, me: Tid, id: usize) {
    let mut g = w.lock();
    if g.aborted {
        return;
    }
    if g.mutex_owner[id] == Some(me) {
        g.mutex_owner[id] = None;
    }
    g.log(me, ev::RELEASE, (2 << 32) | id as u64);
}

pub(crate) fn release_read(w: &Arc<World>, me: Tid, id: usize) {
    let mut g = w.lock();
    if g.aborted {
        return;
    }
    if let Some(p) = g.rw[id].readers.iter().position(|t| *t == me) {
        g.rw[id].readers.remove(p);
    }
    g.log(me, ev::RELEASE, (3 << 32) | id as u64);
}

pub(crate) fn release_write(w: &Arc<World>, me: Tid, id: usize) {
    let mut g = w.lock();
    if g.aborted {
        return;
    }
    if g.rw[id].writer == Some(me) {
        g.rw[id].writer = None;
    }
    g.log(me, ev::RELEASE, (4 << 32) | id as u64);
}

/// Condvar wait: atomically release the mutex and wait; returns `timed_out`.
/// The mutex is NOT re-acquired here (the caller does that with a separate switch).
pub(crate) fn cv_wait(w: &Arc<World>, me: Tid, cv: usize, mutex: usize, timeout_ns: Option<u64>) -> bool {
    {
        let mut g = w.lock();
        if g.aborted {
            w.park_forever(g);
        }
        if g.mutex_owner[mutex] == Some(me) {
            g.mutex_owner[mutex] = None;
        }
        let spurious = g.cfg.spurious_per_mille > 0
            && g.fault_rng.below(1000) < g.cfg.spurious_per_mille as u64;
        let deadline = timeout_ns.map(|t| g.clock.saturating_add(t));
        drop(g);
        w.switch(
            me,
            Want::CvWait {
                cv,
                deadline,
                notified: false,
                spurious,
            },
        );
    }
    let g = w.lock();
    g.threads[me].timed_out
}

pub(crate) fn cv_notify(w: &Arc<World>, me: Tid, cv: usize, all: bool) {
    let mut g = w.lock();
    if g.aborted {
        return;
    }
    let waiters: Vec<Tid> = g
        .threads
        .iter()
        .enumerate()
        .filter(|(_, th)| {
            !th.finished
                && matches!(th.want, Want::CvWait { cv: c, notified: false, .. } if c == cv)
        })
        .map(|(t, _)| t)
        .collect();
    g.log(me, ev::NOTIFY, cv as u64);
    if waiters.is_empty() {
        return;
    }
    let chosen: Vec<Tid> = if all {
        waiters
    } else if waiters.len() == 1 {
        vec![waiters[0]]
    } else {
        let i = g.fault_rng.usize_below(waiters.len());
        vec![waiters[i]]
    };
    for t in chosen {
        if let Want::CvWait { notified, .. } = &mut g.threads[t].want {
            *notified = true;
        }
    }
}

/// A plain scheduling point.
pub fn yield_now() {
    if let Some((w, me)) = current() {
        w.switch(me, Want::Run);
    }
}

pub(crate) fn atomic_point() {
    if let Some((w, me)) = current() {
        let y = { w.lock().cfg.atomics_yield };
        if y {
            w.switch(me, Want::Run);
        }
    }
}

pub fn clock_ns() -> u64 {
    match current() {
        Some((w, _)) => w.lock().clock,
        None => GLOBAL_CLOCK.load(AO::SeqCst),
    }
}

pub(crate) static GLOBAL_CLOCK: AtomicU64 = AtomicU64::new(EPOCH_NS);

/// Used by `Instant::now()`.
pub(crate) fn now_ns() -> u64 {
    match current() {
        Some((w, _)) => {
            let mut g = w.lock();
            if g.cfg.now_jitter_ns > 0 {
                let j = g.cfg.now_jitter_ns;
                let d = g.fault_rng.range(0, j);
                g.clock += d;
            }
            g.clock
        }
        None => GLOBAL_CLOCK.load(AO::SeqCst),
    }
}

/// The simulated user's work taking `ns` of time: advances the clock (a scheduling point).
pub fn advance(ns: u64) {
    match current() {
        Some((w, me)) => {
            {
                let mut g = w.lock();
                g.clock = g.clock.saturating_add(ns);
                g.log(me, ev::ADVANCE, ns);
            }
            w.switch(me, Want::Run);
        }
        None => {
            GLOBAL_CLOCK.fetch_add(ns, AO::SeqCst);
        }
    }
}

/// Advance the clock without a scheduling point (sequential harnesses).
pub fn advance_quiet(ns: u64) {
    match current() {
        Some((w, me)) => {
            let mut g = w.lock();
            g.clock = g.clock.checked_add(ns).expect("harness: virtual clock overflow");
            g.log(me, ev::ADVANCE, ns);
        }
        None => {
            GLOBAL_CLOCK.fetch_add(ns, AO::SeqCst);
        }
    }
}

/// Block the calling simulated thread until the clock has advanced by `ns`.
pub fn sleep(ns: u64) {
    match current() {
        Some((w, me)) => {
            let d = { w.lock().clock.saturating_add(ns) };
            w.switch(me, Want::Sleep(d));
        }
        None => {
            GLOBAL_CLOCK.fetch_add(ns, AO::SeqCst);
        }
    }
}

pub fn tid() -> Option<Tid> {
    current().map(|(_, t)| t)
}

/// Run `f` inside a "no-time scope": if `f` can only make progress by a timed condvar wait
/// of another thread expiring, the world records a no-time violation.
pub fn no_time_scope<R>(f: impl FnOnce() -> R) -> R {
    match current() {
        Some((w, me)) => {
            {
                w.lock().threads[me].no_time_depth += 1;
            }
            struct G(Arc<World>, Tid);
            impl Drop for G {
                fn drop(&mut self) {
                    let mut g = self.0.lock();
                    if !g.aborted {
                        g.threads[self.1].no_time_depth -= 1;
                    }
                }
            }
            let _g = G(w, me);
            f()
        }
        None => f(),
    }
}

pub fn user_event(arg: u64) {
    if let Some((w, me)) = current() {
        w.lock().log(me, ev::USER, arg);
    }
}

pub fn probe_hit(name: &'static str) {
    if let Some((w, _)) = current() {
        *w.lock().probes.entry(name).or_insert(0) += 1;
    }
}

/// Which simulated threads exist and are finished (for lifecycle oracles).
pub fn thread_table() -> Vec<(String, bool)> {
    match current() {
        Some((w, _)) => w
            .lock()
            .threads
            .iter()
            .map(|t| (t.name.clone(), t.finished))
            .collect(),
        None => vec![],
    }
}

pub fn steps() -> u64 {
    match current() {
        Some((w, _)) => w.lock().steps,
        None => 0,
    }
}

// ------------------------------------------------------------------------------------------
// Thread spawn / join
// ------------------------------------------------------------------------------------------

pub struct SimJoin<T> {
    pub(crate) tid: Tid,
    pub(crate) world: Arc<World>,
    pub(crate) result: Arc<StdMutex<Option<std::thread::Result<T>>>>,
}

pub(crate) fn spawn_sim<F, T>(w: &Arc<World>, me: Tid, name: Option<String>, f: F) -> SimJoin<T>
where
    F: FnOnce() -> T + Send + 'static,
    T: Send + 'static,
{
    let tid = {
        let mut g = w.lock();
        if g.aborted {
            w.park_forever(g);
        }
        let n = g.threads.len();
        let t = w.new_thread(&mut g, name.unwrap_or_else(|| format!("spawned{n}")));
        g.log(me, ev::SPAWN, t as u64);
        t
    };
    let result: Arc<StdMutex<Option<std::thread::Result<T>>>> = Arc::new(StdMutex::new(None));
    let r2 = result.clone();
    let w2 = w.clone();
    run_on_carrier(Box::new(move || {
        // wait until scheduled for the first time
        {
            let mut g = w2.lock();
            let mycv = g.threads[tid].cv.clone();
            while g.current != tid {
                g = match mycv.wait(g) {
                    Ok(g) => g,
                    Err(p) => p.into_inner(),
                };
            }
        }
        CUR.with(|c| *c.borrow_mut() = Some((w2.clone(), tid)));
        let res = std::panic::catch_unwind(std::panic::AssertUnwindSafe(f));
        let msg = match &res {
            Ok(_) => None,
            Err(p) => Some(panic_message(p)),
        };
        *r2.lock().unwrap() = Some(res);
        CUR.with(|c| *c.borrow_mut() = None);
        w2.finish_thread(tid, msg);
    }));
    // spawning is a scheduling point
    w.switch(me, Want::Run);
    SimJoin {
        tid,
        world: w.clone(),
        result,
    }
}

impl<T> SimJoin<T> {
    pub fn join(self) -> std::thread::Result<T> {
        match current() {
            Some((w, me)) if Arc::ptr_eq(&w, &self.world) => {
                w.switch(me, Want::Join(self.tid));
            }
            _ => {
                // joined from outside its world: wait for the world to finish the thread
                loop {
                    if self.world.lock().threads[self.tid].finished {
                        break;
                    }
                    std::thread::yield_now();
                }
            }
        }
        let r = self.result.lock().unwrap().take();
        r.expect("joined thread left no result")
    }

    pub fn is_finished(&self) -> bool {
        self.world.lock().threads[self.tid].finished
    }

    pub fn tid(&self) -> Tid {
        self.tid
    }
}

pub fn name_current_thread(name: &str) {
    if let Some((w, me)) = current() {
        w.lock().threads[me].name = name.to_string();
    }
}
