//! `std::thread::{spawn, JoinHandle}` under the simulator.
pub use std::thread::{panicking, Result};

use crate::sched::{current, spawn_sim, SimJoin};

pub struct JoinHandle<T>(Inner<T>);

enum Inner<T> {
    Sim(SimJoin<T>),
    Real(std::thread::JoinHandle<T>),
}

pub fn spawn<F, T>(f: F) -> JoinHandle<T>
where
    F: FnOnce() -> T + Send + 'static,
    T: Send + 'static,
{
    match current() {
        Some((w, me)) => JoinHandle(Inner::Sim(spawn_sim(&w, me, None, f))),
        None => JoinHandle(Inner::Real(std::thread::spawn(f))),
    }
}

/// Spawn with a name that is visible in the simulator's thread table from the start.
pub fn spawn_named<F, T>(name: &str, f: F) -> JoinHandle<T>
where
    F: FnOnce() -> T + Send + 'static,
    T: Send + 'static,
{
    match current() {
        Some((w, me)) => JoinHandle(Inner::Sim(spawn_sim(&w, me, Some(name.to_string()), f))),
        None => JoinHandle(Inner::Real(std::thread::spawn(f))),
    }
}

impl<T> JoinHandle<T> {
    pub fn join(self) -> Result<T> {
        match self.0 {
            Inner::Sim(s) => s.join(),
            Inner::Real(r) => r.join(),
        }
    }
    pub fn is_finished(&self) -> bool {
        match &self.0 {
            Inner::Sim(s) => s.is_finished(),
            Inner::Real(r) => r.is_finished(),
        }
    }
    /// simulated thread id (None for a real thread)
    pub fn sim_tid(&self) -> Option<usize> {
        match &self.0 {
            Inner::Sim(s) => Some(s.tid()),
            Inner::Real(_) => None,
        }
    }
}

impl<T> std::fmt::Debug for JoinHandle<T> {
    fn fmt(&self, f: &mut std::fmt::Formatter<'_>) -> std::fmt::Result {
        f.debug_struct("JoinHandle").finish_non_exhaustive()
    }
}

pub fn yield_now() {
    crate::sched::yield_now();
}

/// Simulated sleep (virtual time).
pub fn sleep(d: std::time::Duration) {
    crate::sched::sleep(d.as_nanos() as u64);
}
