//! Small deterministic PRNG (SplitMix64 seeding + xoshiro256**). Own code, no crate,
//! so that one integer decides everything and nothing depends on a crate version.

#[derive(Clone, Debug)]
pub struct Rng {
    s: [u64; 4],
}

pub fn splitmix64(x: &mut u64) -> u64 {
    *x = x.wrapping_add(0x9E37_79B9_7F4A_7C15);
    let mut z = *x;
    z = (z ^ (z >> 30)).wrapping_mul(0xBF58_476D_1CE4_E5B9);
    z = (z ^ (z >> 27)).wrapping_mul(0x94D0_49BB_1331_11EB);
    z ^ (z >> 31)
}

/// Mix several integers into one seed (order sensitive).
pub fn mix(parts: &[u64]) -> u64 {
    let mut h: u64 = 0x243F_6A88_85A3_08D3;
    for p in parts {
        let mut x = h ^ p.wrapping_mul(0x9E37_79B9_7F4A_7C15);
        h = splitmix64(&mut x).rotate_left(17) ^ *p;
        let mut y = h;
        h = splitmix64(&mut y);
    }
    h
}

impl Rng {
    pub fn new(seed: u64) -> Self {
        let mut x = seed;
        let s = [
            splitmix64(&mut x),
            splitmix64(&mut x),
            splitmix64(&mut x),
            splitmix64(&mut x),
        ];
        Rng { s }
    }

    pub fn next_u64(&mut self) -> u64 {
        let result = self.s[1].wrapping_mul(5).rotate_left(7).wrapping_mul(9);
        let t = self.s[1] << 17;
        self.s[2] ^= self.s[0];
        self.s[3] ^= self.s[1];
        self.s[1] ^= self.s[2];
        self.s[0] ^= self.s[3];
        self.s[2] ^= t;
        self.s[3] = self.s[3].rotate_left(45);
        result
    }

    /// Uniform in 0..n (n > 0).
    pub fn below(&mut self, n: u64) -> u64 {
        debug_assert!(n > 0);
        if n <= 1 {
            return 0;
        }
        // Lemire-style rejection-free enough for our purposes (bias < 2^-32 for n < 2^32)
        ((self.next_u64() as u128 * n as u128) >> 64) as u64
    }

    pub fn range(&mut self, lo: u64, hi_incl: u64) -> u64 {
        debug_assert!(lo <= hi_incl);
        let span = hi_incl - lo;
        if span == u64::MAX {
            return self.next_u64();
        }
        lo + self.below(span + 1)
    }

    pub fn usize_below(&mut self, n: usize) -> usize {
        self.below(n as u64) as usize
    }

    /// true with probability num/den
    pub fn chance(&mut self, num: u64, den: u64) -> bool {
        self.below(den) < num
    }

    pub fn f64(&mut self) -> f64 {
        (self.next_u64() >> 11) as f64 / (1u64 << 53) as f64
    }

    pub fn pick<'a, T>(&mut self, xs: &'a [T]) -> &'a T {
        &xs[self.usize_below(xs.len())]
    }

    /// Weighted pick: returns index
    pub fn weighted(&mut self, weights: &[u32]) -> usize {
        let total: u64 = weights.iter().map(|w| *w as u64).sum();
        debug_assert!(total > 0);
        let mut x = self.below(total);
        for (i, w) in weights.iter().enumerate() {
            if x < *w as u64 {
                return i;
            }
            x -= *w as u64;
        }
        weights.len() - 1
    }

    pub fn fork(&mut self) -> Rng {
        Rng::new(self.next_u64())
    }
}
