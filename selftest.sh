#!/bin/bash
# /verif/selftest.sh — proves the simulator itself, not the library:
#   determinism: for every check, N scenarios are executed in separate processes at different
#   worker counts (and twice at the same count); the per-scenario trace hashes (scheduling
#   decisions, lock releases, notifies, timer jumps, terminal calls via probes/faults, steps,
#   simulated time, verdict) must be identical.
# usage: ./selftest.sh [N]    (default 400 scenarios per check)
set -u
cd "$(dirname "$0")" || exit 2
N=${1:-400}
./check build >/dev/null || exit 2
fail=0
for id in $(target/release/verif list); do
  a=$(VERIF_WORKERS=1 target/release/verif determinism $id $N | sha256sum)
  b=$(VERIF_WORKERS=16 target/release/verif determinism $id $N | sha256sum)
  c=$(VERIF_WORKERS=7 target/release/verif determinism $id $N thorough | sha256sum)
  d=$(VERIF_WORKERS=16 target/release/verif determinism $id $N thorough | sha256sum)
  if [ "$a" = "$b" ] && [ "$c" = "$d" ]; then
    echo "determinism $id: ok ($N scenarios x 2 tiers, workers 1/16 and 7/16)"
  else
    echo "determinism $id: MISMATCH"; fail=1
  fi
done
exit $fail
