//! C05 — redraw throttling: bounded frame rate and bounded staleness.
//!
//! Sequential simulation on the virtual clock: 50..400 requests whose arrival gaps are drawn
//! around the failure-prone places (0, 1 ns, the nominal interval ± {0, 1 ns, 1 µs}, multiples,
//! 1 ms ± 1 ns, seconds, hours). The oracle states the laws of the statement on the recorded
//! paint timestamps, not the arithmetic of the implementation.

use indicatif::{MultiProgress, ProgressBar, ProgressDrawTarget, ProgressStyle, TermLike};
use verif_simrt::rng::Rng;
use verif_simrt::{sched, Config, World};

use crate::c07::finish_report;
use crate::common::*;
use crate::engine::{Budget, Check, Tier};
use crate::scenario::{Op, Report, Scenario};
use crate::simterm::SimTerm;

pub struct C05;

fn interval_ns(r: u64) -> u64 {
    (1_000_000_000 + r - 1) / r
}

fn exec(sc: &Scenario) -> Report {
    let sc2 = sc.clone();
    let (res, out) = World::run(Config::sequential(sc.seed), move || {
        let sc = sc2;
        let mut r = Report::default();
        let mut term = SimTerm::new(60, 10);
        let hz = sc.c("hz");
        // now and then a real console::Term on the slave side of a kernel pty (the `Term` arm of
        // the draw target with its own limiter set-up): frames are the bytes that arrive
        let mut pty_term: Option<console::Term> = None;
        if sc.c("pty") == 1 && hz > 0 {
            if let Some((t, ct)) = SimTerm::new_pty(60, 10) {
                term = t;
                pty_term = Some(ct);
                r.probe("pty_runs");
            }
        }
        let target = if let Some(ct) = pty_term {
            ProgressDrawTarget::term(ct, hz as u8)
        } else if hz > 0 {
            ProgressDrawTarget::term_like_with_hz(Box::new(term.clone()), hz as u8)
        } else {
            ProgressDrawTarget::term_like(Box::new(term.clone()))
        };
        let multi = sc.c("multi") == 1;
        // (one bar in four has no length to begin with)
        let len0: Option<u64> = if sc.c("no_len") == 1 { None } else { Some(1_000_000) };
        let mut len: Option<u64> = len0;
        let mut prefix = String::new();
        // sibling bars above the bar under test: finished and dropped in any order during the
        // run (dropped bars wait at the head of the MultiProgress to be reaped by a later draw)
        let mut sibs: Vec<Option<ProgressBar>> = vec![];
        let (pb, mp) = if multi {
            let mp = MultiProgress::with_draw_target(target);
            for k in 0..sc.c("n_sibs").min(3) {
                let sb = mp.add(ProgressBar::with_draw_target(Some(5), ProgressDrawTarget::hidden()));
                sb.set_style(ProgressStyle::with_template(&format!("sib{k}")).unwrap());
                sibs.push(Some(sb.with_finish(indicatif::ProgressFinish::AndLeave)));
            }
            let pb = mp.add(ProgressBar::with_draw_target(len0, ProgressDrawTarget::hidden()));
            (pb, Some(mp))
        } else {
            (ProgressBar::with_draw_target(len0, target), None)
        };
        pb.set_style(ProgressStyle::with_template("{pos}|{msg}|{prefix}|{len}").unwrap());
        // paint timestamps (ns) of frames caused by ordinary requests, by position requests, all
        let mut ordinary: Vec<u64> = vec![];
        let mut position_frames: Vec<u64> = vec![];
        let mut last_paint: Option<u64> = None;
        let mut msg = String::new();
        let mut pos: u64 = 0;
        let ops = sc.threads.first().cloned().unwrap_or_default();
        let int_ns = if hz > 0 { interval_ns(hz) } else { 0 };
        for (i, op) in ops.iter().enumerate() {
            let at = format!("op#{i} {}", op.short());
            if op.k == "gap" {
                sched::advance_quiet(op.n0());
                continue;
            }
            let now = sched::clock_ns();
            let f0 = term.flushes();
            let res = match op.k.as_str() {
                "tick" => call(|| pb.tick()),
                // (update() is a direct ordinary request like tick(): not one of the calls that go
                // through the position bucket)
                "update" => call(|| pb.update(|_| {})),
                "finish_clear" => {
                    // finish_and_clear() moves the position to the length (if there is one)
                    if let Some(l) = len {
                        pos = l;
                    }
                    call(|| pb.finish_and_clear())
                }
                // the other setters are ordinary redraw requests as well
                "set_prefix" => {
                    prefix = format!("p{i}");
                    let m = prefix.clone();
                    call(|| pb.set_prefix(m))
                }
                "set_length" => {
                    len = Some(op.n0());
                    call(|| pb.set_length(op.n0()))
                }
                // the end comes within reach: the length becomes position + n (the next inc(n)
                // lands exactly on it)
                "land" => {
                    let l = pos.saturating_add(op.n0());
                    len = Some(l);
                    call(|| pb.set_length(l))
                }
                "inc_length" => {
                    len = len.map(|l| l.saturating_add(op.n0()));
                    call(|| pb.inc_length(op.n0()))
                }
                "dec_length" => {
                    len = len.map(|l| l.saturating_sub(op.n0()));
                    call(|| pb.dec_length(op.n0()))
                }
                "unset_length" => {
                    len = None;
                    call(|| pb.unset_length())
                }
                "dec" => {
                    pos = pos.wrapping_sub(op.n0());
                    call(|| pb.dec(op.n0()))
                }
                "set_message" => {
                    msg = format!("m{i}");
                    let m = msg.clone();
                    call(|| pb.set_message(m))
                }
                "inc" => {
                    pos = pos.wrapping_add(op.n0());
                    call(|| pb.inc(op.n0()))
                }
                "set_position" => {
                    pos = op.n0();
                    call(|| pb.set_position(op.n0()))
                }
                "reset" => {
                    pos = 0;
                    call(|| pb.reset())
                }
                "println" => call(|| pb.println(format!("log{i}"))),
                "force_draw" => call(|| pb.force_draw()),
                "mp_println" => call(|| {
                    if let Some(mp) = &mp {
                        let _ = mp.println(format!("mplog{i}"));
                    }
                }),
                "mp_clear" => call(|| {
                    if let Some(mp) = &mp {
                        let _ = mp.clear();
                    }
                }),
                "sib_finish" => call(|| {
                    if let Some(Some(sb)) = sibs.get(op.n0() as usize) {
                        sb.finish();
                    }
                }),
                "sib_drop" => {
                    let sb = sibs.get_mut(op.n0() as usize).and_then(|x| x.take());
                    call(|| drop(sb))
                }
                _ => Ok(()),
            };
            if let Err(p) = res {
                r.violate("C05.no_panic", format!("{at} panicked: {p}"));
                break;
            }
            let painted = term.flushes() > f0;
            let forced = matches!(op.k.as_str(), "println" | "force_draw" | "mp_println" | "mp_clear" | "sib_finish" | "sib_drop" | "finish_clear");
            // (finishing / dropping a sibling and clearing paint forced frames, or none at all)
            let may_not_paint = matches!(op.k.as_str(), "mp_clear" | "sib_finish" | "sib_drop" | "finish_clear");
            let direct = matches!(op.k.as_str(), "tick" | "set_message" | "reset" | "update" | "set_prefix" | "set_length" | "land" | "inc_length" | "dec_length" | "unset_length");
            let positional = matches!(op.k.as_str(), "inc" | "set_position" | "dec");
            if forced && !painted && !may_not_paint && !(op.k == "mp_println" && mp.is_none()) {
                r.violate("C05.forced_paint", format!("{at}: a forced request painted nothing"));
                break;
            }
            // (2) no starvation for direct ordinary requests
            if direct && !painted {
                let starved = match last_paint {
                    None => true,
                    Some(lp) => hz == 0 || now - lp >= int_ns,
                };
                if starved {
                    r.violate(
                        "C05.starved",
                        format!(
                            "{at}: an ordinary redraw request at t={now} ns was not painted although the last painted frame was at {:?} ({} ns earlier; refresh interval {} ns at {hz} Hz)",
                            last_paint,
                            last_paint.map_or(0, |lp| now - lp),
                            int_ns
                        ),
                    );
                    break;
                }
                r.probe("ordinary_request_skipped");
            }
            if painted {
                if !forced {
                    ordinary.push(now);
                }
                if positional {
                    position_frames.push(now);
                }
                last_paint = Some(now);
                // (5) nothing lost: a frame painted by a request of the bar itself shows the
                // latest position, length, message and prefix
                let t = term.transcript();
                let want = format!("{pos}|{msg}|{prefix}|{}", len.unwrap_or(pos));
                if op.k != "mp_println" && !may_not_paint && t.last().map(|s| s.as_str()) != Some(want.as_str()) {
                    r.violate(
                        "C05.stale_frame",
                        format!("{at}: the painted frame shows {:?}, the latest state is {want:?}", t.last()),
                    );
                    break;
                }
            }
            // (3) position staleness
            if positional && hz > 0 {
                match last_paint {
                    None => {
                        r.violate("C05.position_stale", format!("{at}: a position update and still no frame at all"));
                        break;
                    }
                    Some(lp) => {
                        if now - lp >= int_ns + 1_000_000 {
                            r.violate(
                                "C05.position_stale",
                                format!("{at}: after a position update at t={now} ns the last painted frame is {} ns old (limit: refresh interval {} ns + 1 ms)", now - lp, int_ns),
                            );
                            break;
                        }
                    }
                }
                if !painted {
                    r.probe("position_request_not_painted");
                }
            }
            if positional && hz == 0 && !painted {
                // (4b) the position bucket admits a request >= 1 ms after the last admitted one
                // (…and >= 1 ms after the last painted frame of any kind: reset() repaints and
                // restarts the bucket's clock, which is within the law)
                let starved = match position_frames.last() {
                    None => true,
                    Some(lp) => now - lp >= 1_000_000,
                } && last_paint.map_or(true, |lp| now - lp >= 1_000_000);
                // other (direct) frames do not feed the position bucket; only compare with position frames
                if starved {
                    r.violate(
                        "C05.position_bucket_starved",
                        format!("{at}: position update at t={now} ns not painted on an unlimited target although the last admitted one was at {:?}", position_frames.last()),
                    );
                    break;
                }
            }
        }
        // (1) rate law over every window
        if hz > 0 && r.violation.is_none() {
            'outer: for i in 0..ordinary.len() {
                for j in (i + 21)..ordinary.len() {
                    let frames = (j - i + 1) as u128;
                    let dt = (ordinary[j] - ordinary[i]) as u128;
                    // frames <= 20 + R*dt + 1
                    if (frames - 21) * 1_000_000_000 > hz as u128 * dt {
                        r.violate(
                            "C05.rate_law",
                            format!(
                                "{} frames caused by ordinary requests reached the terminal in the {} ns window [{}, {}] at {hz} Hz; the law allows 20 + R*T + 1 = {}",
                                frames,
                                dt,
                                ordinary[i],
                                ordinary[j],
                                21 + hz as u128 * dt / 1_000_000_000
                            ),
                        );
                        break 'outer;
                    }
                }
            }
        }
        // (4) position bucket law (burst 10, 1 per ms) on unlimited targets
        if hz == 0 && r.violation.is_none() {
            'outer2: for i in 0..position_frames.len() {
                for j in (i + 11)..position_frames.len() {
                    let frames = (j - i + 1) as u128;
                    let dt = (position_frames[j] - position_frames[i]) as u128;
                    if (frames - 11) * 1_000_000 > dt {
                        r.violate(
                            "C05.position_bucket_law",
                            format!("{frames} position updates were admitted in a {dt} ns window; the law allows 10 + T/1ms + 1"),
                        );
                        break 'outer2;
                    }
                }
            }
        }
        r.probe_n("ordinary_frames", ordinary.len() as u64);
        r.nontrivial = ordinary.len() >= 3;
        let _ = term.width();
        drop(pb);
        drop(mp);
        r
    });
    finish_report(res, out)
}

/// ticked: the ordinary requests come from a steady ticker (and from set_message calls of the user
/// thread); the user thread sleeps, or holds the bar inside suspend() for many tick intervals
/// while the ticker thread waits for the bar, or the terminal is slow. Law (1) on the paint times.
fn exec_ticked(sc: &Scenario) -> Report {
    let sc2 = sc.clone();
    let (res, out) = World::run(Config::sequential(sc.seed), move || {
        let sc = sc2;
        let mut r = Report::default();
        let term = SimTerm::new(60, 10);
        let hz = sc.c("hz").clamp(1, 255);
        if sc.c("slow_flush_ns") > 0 {
            term.set_fault(crate::simterm::FaultPlan {
                slow_flush_ns: sc.c("slow_flush_ns"),
                ..Default::default()
            });
        }
        let pb = ProgressBar::with_draw_target(Some(1_000_000), ProgressDrawTarget::term_like_with_hz(Box::new(term.clone()), hz as u8));
        pb.set_style(ProgressStyle::with_template("{spinner} {pos}|{msg}").unwrap());
        let main_tid = sched::tid().unwrap_or(0);
        let d_ns = sc.c("tick_ns").max(1_000);
        if let Err(p) = call(|| pb.enable_steady_tick(std::time::Duration::from_nanos(d_ns))) {
            r.violate("C05.no_panic", format!("enable_steady_tick panicked: {p}"));
            return r;
        }
        let ops = sc.threads.first().cloned().unwrap_or_default();
        let mut forced_ops: std::collections::BTreeSet<u64> = Default::default();
        for (i, op) in ops.iter().enumerate() {
            let at = format!("op#{i} {}", op.short());
            term.set_op(i as u64 + 1);
            let res = match op.k.as_str() {
                "sleep" => {
                    sched::sleep(op.n0());
                    Ok(())
                }
                "suspend_hold" => {
                    forced_ops.insert(i as u64 + 1);
                    call(|| pb.suspend(|| sched::sleep(op.n0())))
                }
                "println" => {
                    forced_ops.insert(i as u64 + 1);
                    call(|| pb.println("log"))
                }
                "set_message" => call(|| pb.set_message(format!("m{i}"))),
                "inc" => call(|| pb.inc(1)),
                _ => Ok(()),
            };
            if let Err(p) = res {
                r.violate("C05.no_panic", format!("{at} panicked: {p}"));
                break;
            }
        }
        let _ = call(|| pb.disable_steady_tick());
        // frames caused by ordinary requests: everything the ticker thread painted, and what the
        // user thread painted outside its forced calls
        let mut ordinary: Vec<u64> = term
            .lock()
            .flush_log
            .iter()
            .filter(|(_, _, op, tid)| *tid != main_tid || !forced_ops.contains(op))
            .map(|(_, clock, _, _)| *clock)
            .collect();
        ordinary.sort_unstable();
        if r.violation.is_none() {
            'outer: for i in 0..ordinary.len() {
                for j in (i + 21)..ordinary.len() {
                    let frames = (j - i + 1) as u128;
                    let dt = (ordinary[j] - ordinary[i]) as u128;
                    if (frames - 21) * 1_000_000_000 > hz as u128 * dt {
                        r.violate(
                            "C05.rate_law",
                            format!(
                                "steady ticker every {d_ns} ns: {frames} frames caused by ordinary requests reached the terminal in the {dt} ns window [{}, {}] at {hz} Hz; the law allows 20 + R*T + 1 = {}",
                                ordinary[i],
                                ordinary[j],
                                21 + hz as u128 * dt / 1_000_000_000
                            ),
                        );
                        break 'outer;
                    }
                }
            }
        }
        r.probe_n("ticked_ordinary_frames", ordinary.len() as u64);
        r.probe("ticked_runs");
        r.nontrivial = ordinary.len() >= 3;
        drop(pb);
        r
    });
    finish_report(res, out)
}

/// MultiProgress runs: sibling bars above the bar under test are finished and dropped (in any
/// order) and the region is cleared somewhere in the history
fn add_sibling_ops(sc: &mut Scenario, ops: &mut Vec<Op>, rng: &mut Rng) {
    if sc.c("multi") != 1 || rng.chance(1, 2) {
        return;
    }
    let n = rng.range(1, 3);
    sc.set("n_sibs", n);
    let mut extra: Vec<Op> = vec![];
    for k in 0..n {
        if rng.chance(3, 4) {
            extra.push(Op::new("sib_finish").n(k));
        }
        extra.push(Op::new("sib_drop").n(k));
    }
    // any order of the drops (finish stays before the drop of the same bar)
    if rng.chance(1, 2) {
        extra.reverse();
        let mut fixed: Vec<Op> = vec![];
        for k in (0..n).rev() {
            for o in extra.iter().filter(|o| o.n0() == k && o.k == "sib_finish") {
                fixed.push(o.clone());
            }
            fixed.push(Op::new("sib_drop").n(k));
        }
        extra = fixed;
    }
    if rng.chance(1, 3) {
        extra.push(Op::new("mp_clear"));
    }
    // sprinkle them over the second half of the history, keeping their order
    let len = ops.len();
    let mut at: Vec<usize> = (0..extra.len()).map(|_| len / 2 + rng.usize_below(len - len / 2 + 1)).collect();
    at.sort();
    for (o, i) in extra.into_iter().zip(at).rev() {
        ops.insert(i.min(ops.len()), o);
    }
}

impl Check for C05 {
    fn id(&self) -> &'static str {
        "C05"
    }
    fn rule_text(&self) -> String {
        "50..400 requests (tick, set_message, set_prefix, set_length, inc_length, dec_length, unset_length, update, reset (also right after finish_and_clear) = direct ordinary; inc/dec/set_position = through the position bucket; one bar in four starts without a length; in bursts the length is moved to position + 1 and the next inc lands exactly on it, again and again; println/force_draw/mp.println/mp.clear and finishing + dropping sibling bars above the bar under test = forced, excluded from the law) on a target with refresh rate R uniform in 1..=255 or without limiter, standalone or as a MultiProgress target (one run in thirty on a real console::Term over a kernel pty); arrival gaps from a mixture: 0, 1 ns, I±{0,1 ns,1 µs}, k*I±..., 1 ms±1 ns, sub-interval uniform, seconds, hours (I = 1e9/R ns). Laws checked on the recorded paint timestamps: (1) every window of ordinary frames satisfies count <= 20 + R*T + 1 (integer arithmetic), (2) a direct ordinary request arriving >= ceil(1e9/R) ns after the last painted frame is painted, (3) after every position update the last painted frame is younger than ceil(1e9/R) ns + 1 ms, (4) on an unlimited target admitted position updates obey burst 10 / 1 per ms and a position update >= 1 ms after the last admitted one is admitted, (5) every painted frame shows the latest position, length, message and prefix. Mode ticked (one run in ten): the ordinary requests come from a steady ticker (1 ms .. 1 s) and from set_message calls while the user thread sleeps for 1..40 tick intervals, holds the bar inside suspend() for 3..90 intervals (the ticker thread waits for the bar meanwhile), prints, and the terminal may be slow (every flush takes 0.2 or 30 ms); law (1) on the times at which the frames reached the terminal. Non-trivial: >= 3 frames caused by ordinary requests. Distinct = distinct scenario hash.".into()
    }
    fn assumptions(&self) -> Vec<String> {
        vec!["time is integral nanoseconds on the virtual clock; a steady ticker is installed only in mode ticked".into()]
    }
    fn budget(&self, tier: Tier) -> Budget {
        match tier {
            Tier::Quick => Budget { runs: 40_000, wall_s: 90 },
            Tier::Thorough => Budget { runs: 1_000_000, wall_s: 600 },
        }
    }
    fn corpus(&self) -> Vec<Scenario> {
        // sustained ticking at 255 Hz for one simulated second with 1 ms gaps
        let mut s = Scenario::new("C05", "seq", 51);
        s.set("hz", 255);
        let mut ops = vec![];
        for _ in 0..1200 {
            ops.push(Op::new("tick"));
            ops.push(Op::new("gap").n(1_000_000));
        }
        s.threads = vec![ops];
        let mut s2 = s.clone();
        s2.set("hz", 15);
        s2.seed = 52;
        vec![s, s2]
    }
    fn gen(&self, rng: &mut Rng, tier: Tier, _index: u64) -> Scenario {
        if rng.chance(1, 10) {
            let mut sc = Scenario::new("C05", "ticked", rng.next_u64());
            sc.set("hz", *rng.pick(&[1, 2, 5, 20, 20, 60, 255]));
            let d = *rng.pick(&[1_000_000u64, 5_000_000, 20_000_000, 50_000_000, 100_000_000, 1_000_000_000]);
            sc.set("tick_ns", d);
            sc.set("slow_flush_ns", *rng.pick(&[0, 0, 0, 200_000, 30_000_000]));
            let mut ops = vec![];
            for _ in 0..rng.range(3, 20) {
                ops.push(match rng.weighted(&[5, 4, 2, 1, 2]) {
                    0 => Op::new("sleep").n(rng.range(1, 40) * d + rng.below(d)),
                    1 => Op::new("suspend_hold").n(rng.range(3, 90) * d),
                    2 => Op::new("set_message"),
                    3 => Op::new("println"),
                    _ => Op::new("inc"),
                });
            }
            sc.threads = vec![ops];
            return sc;
        }
        let mut sc = Scenario::new("C05", "seq", rng.next_u64());
        let hz = if rng.chance(1, 6) {
            0
        } else if rng.chance(1, 3) {
            // the rates at the ends of the range and a few that do / do not divide 10^9
            *rng.pick(&[1, 1, 2, 3, 7, 15, 20, 60, 128, 254, 255])
        } else {
            rng.range(1, 255)
        };
        sc.set("hz", hz);
        sc.set("multi", rng.chance(1, 3) as u64);
        sc.set("pty", rng.chance(1, 30) as u64);
        sc.set("no_len", rng.chance(1, 4) as u64);
        let i = if hz > 0 { 1_000_000_000 / hz } else { 1_000_000 };
        let n = rng.range(50, if tier == Tier::Quick { 250 } else { 400 });
        // per-run mixture weights (swarm)
        let w_gap: [u32; 10] = [
            rng.range(1, 8) as u32,
            rng.range(0, 3) as u32,
            rng.range(0, 8) as u32,
            rng.range(0, 6) as u32,
            rng.range(0, 4) as u32,
            rng.range(0, 6) as u32,
            rng.range(0, 3) as u32,
            rng.range(0, 1) as u32,
            rng.range(0, 4) as u32,
            rng.range(0, 2) as u32,
        ];
        let w_op: [u32; 8] = [rng.range(1, 8) as u32, rng.range(0, 5) as u32, rng.range(0, 8) as u32, rng.range(0, 3) as u32, rng.range(0, 1) as u32, rng.range(0, 1) as u32, rng.range(0, 1) as u32, rng.range(0, 2) as u32];
        let mut ops = vec![];
        if rng.chance(1, 4) {
            // burst - idle - burst: empty the bucket, idle for about k intervals (k around the
            // burst size), burst again
            for _ in 0..rng.range(1, 3) {
                let cycles = rng.chance(1, 6);
                for _ in 0..rng.range(18, 45) {
                    if cycles {
                        // finish-and-clear / reset cycles
                        ops.push(Op::new("finish_clear"));
                        ops.push(Op::new("reset"));
                        continue;
                    }
                    if rng.chance(1, 5) {
                        // the position lands exactly on the length, again and again
                        ops.push(Op::new("land").n(1));
                        ops.push(Op::new("gap").n(1_000_000));
                        ops.push(Op::new("inc").n(1));
                        ops.push(Op::new("gap").n(1_000_000));
                        continue;
                    }
                    ops.push(match rng.below(12) {
                        0 | 1 => Op::new("inc").n(1),
                        2 => Op::new("update"),
                        10 => Op::new("inc_length").n(1),
                        11 => Op::new("set_prefix"),
                        _ => Op::new("tick"),
                    });
                    if rng.chance(1, 6) {
                        ops.push(Op::new("gap").n(rng.below(1000)));
                    }
                }
                let k = *rng.pick(&[1u64, 2, 10, 19, 20, 20, 21, 22, 40]);
                ops.push(Op::new("gap").n(k * i + rng.below(i.max(2))));
            }
            for _ in 0..rng.range(18, 45) {
                ops.push(Op::new("tick"));
            }
            add_sibling_ops(&mut sc, &mut ops, rng);
            sc.threads = vec![ops];
            return sc;
        }
        for _ in 0..n {
            let jit = *rng.pick(&[0i64, 0, 1, -1, 1000, -1000]);
            let gap: u64 = match rng.weighted(&w_gap) {
                0 => 0,
                1 => 1,
                2 => (i as i64 + jit).max(0) as u64,
                3 => ((rng.range(2, 25) * i) as i64 + jit + if rng.chance(1, 3) { rng.below(i.max(2)) as i64 } else { 0 }).max(0) as u64,
                4 => (1_000_000i64 + *rng.pick(&[0i64, 1, -1])) as u64,
                5 => rng.below(i.max(2)),
                6 => rng.range(1, 5) * 1_000_000_000,
                7 => 3_600_000_000_000,
                8 => i / 2,
                _ => rng.below(2_000_000),
            };
            if gap > 0 {
                ops.push(Op::new("gap").n(gap));
            }
            let next_op = match rng.weighted(&w_op) {
                0 => Op::new("tick"),
                1 => Op::new("set_message"),
                2 => Op::new("inc").n(rng.below(3)),
                3 => Op::new("set_position").n(rng.below(1000)),
                4 => Op::new("println"),
                5 => Op::new("force_draw"),
                6 => Op::new("mp_println"),
                _ => {
                    if rng.chance(1, 3) {
                        // a bar that is finished-and-cleared and put to work again at once (every
                        // request to a finished bar is a forced one: nothing in between)
                        ops.push(Op::new("finish_clear"));
                    }
                    Op::new("reset")
                }
            };
            // one request in six is one of the other setters (ordinary requests, too)
            let next_op = if rng.chance(1, 6) && !matches!(next_op.k.as_str(), "reset") {
                match rng.below(7) {
                    0 => Op::new("set_prefix"),
                    1 => Op::new("set_length").n(rng.below(2_000_000)),
                    2 => Op::new("inc_length").n(rng.below(5)),
                    3 => Op::new("dec_length").n(rng.below(5)),
                    4 => Op::new("unset_length"),
                    5 => Op::new("dec").n(rng.below(3)),
                    _ => Op::new("set_length").n(1_000_000),
                }
            } else {
                next_op
            };
            ops.push(next_op);
            if rng.chance(1, 12) {
                ops.push(Op::new("update"));
            }
        }
        add_sibling_ops(&mut sc, &mut ops, rng);
        sc.threads = vec![ops];
        sc
    }
    fn exec(&self, sc: &Scenario) -> Report {
        if sc.mode == "ticked" {
            return exec_ticked(sc);
        }
        exec(sc)
    }
    fn shrink_cfg(&self) -> Vec<(&'static str, u64)> {
        vec![("multi", 0), ("n_sibs", 0), ("pty", 0), ("no_len", 0)]
    }
}
