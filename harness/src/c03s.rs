//! C03, scheduled part: lines are printed (println, external output inside suspend) from one or two
//! simulated threads while other threads — and optionally a steady ticker — keep drawing the same
//! bar(s). Every line whose call has returned must be on the terminal exactly once at every later
//! flush and at the end, each thread's lines in its emission order.
//!
//! On the unchanged tree println and suspend hold the bar / MultiProgress lock across clear,
//! closure and redraw, so no schedule can get a draw in between; the check has no timing in it.

use std::sync::{Arc, Mutex as StdMutex};

use indicatif::{MultiProgress, ProgressBar, ProgressDrawTarget, ProgressStyle};
use verif_simrt::rng::Rng;
use verif_simrt::{sched, World};

use crate::c07::{finish_report, gen_sched_cfg, sched_config};
use crate::engine::Tier;
use crate::scenario::{Op, Report, Scenario};
use crate::simterm::SimTerm;

fn is_log_row(row: &str) -> bool {
    row.starts_with('L') || row == "END"
}

/// (thread, k) of a log row "L<thread>-<k>"
fn parse_log(row: &str) -> Option<(u64, u64)> {
    let rest = row.strip_prefix('L')?;
    let (t, k) = rest.split_once('-')?;
    Some((t.parse().ok()?, k.parse().ok()?))
}

struct Shared {
    /// lines whose call has returned (must be visible from then on)
    done: Vec<String>,
    /// first problem seen at a flush
    problem: Option<String>,
}

fn run_logger(tid: u64, ops: &[Op], pb: &ProgressBar, mp: &Option<MultiProgress>, term: &SimTerm, shared: &Arc<StdMutex<Shared>>) {
    let mut k = 0u64;
    for op in ops {
        match op.k.as_str() {
            "println" | "mp_println" => {
                k += 1;
                let line = format!("L{tid}-{k}");
                match (&op.k[..], mp) {
                    ("mp_println", Some(mp)) => {
                        let _ = mp.println(&line);
                    }
                    _ => pb.println(&line),
                }
                shared.lock().unwrap().done.push(line);
            }
            "suspend" | "mp_suspend" => {
                k += 1;
                let line = format!("L{tid}-{k}");
                let (t2, l2, nap) = (term.clone(), line.clone(), op.n0());
                let body = move || {
                    // scheduling points and (virtual) time inside the closure: other threads and
                    // the ticker get every chance to draw in the middle of it
                    sched::yield_now();
                    if nap > 0 {
                        sched::sleep(nap);
                    }
                    t2.external_line(&l2);
                    sched::yield_now();
                    if nap > 0 {
                        sched::sleep(nap / 2);
                    }
                };
                match (&op.k[..], mp) {
                    ("mp_suspend", Some(mp)) => mp.suspend(body),
                    _ => pb.suspend(body),
                }
                shared.lock().unwrap().done.push(line);
            }
            "tick" => pb.tick(),
            "inc" => pb.inc(1),
            "set_message" => pb.set_message(format!("m{}", op.n0())),
            "advance" => sched::advance(op.n0()),
            "sleep" => sched::sleep(op.n0()),
            "yield" => sched::yield_now(),
            _ => {}
        }
    }
}

pub fn exec_sched(sc: &Scenario, pid: &'static str) -> Report {
    let sc2 = sc.clone();
    let mut cfg = sched_config(sc);
    cfg.step_cap = 200_000;
    let (res, out) = World::run(cfg, move || {
        let sc = sc2;
        let mut r = Report::default();
        sched::name_current_thread("user-0");
        let term = SimTerm::new(40, 200);
        if sc.c("buffered") == 1 {
            term.lock().buffered = true;
        }
        let hz = sc.c("hz");
        let target = if hz > 0 {
            ProgressDrawTarget::term_like_with_hz(Box::new(term.clone()), hz as u8)
        } else {
            ProgressDrawTarget::term_like(Box::new(term.clone()))
        };
        let two = sc.c("lines") == 2;
        let style = |tag: &str| {
            let t = if two { format!("{tag}:{{pos}}:{{msg}}\n{tag}2:{{pos}}") } else { format!("{tag}:{{pos}}:{{msg}}") };
            ProgressStyle::with_template(&t).unwrap()
        };
        let rule_log = if pid == "C01" { "C01.log_lines" } else { "C03.log_lines" };
        let multi = sc.c("multi") == 1;
        let (mp, bars): (Option<MultiProgress>, Vec<ProgressBar>) = if multi {
            let mp = MultiProgress::with_draw_target(target);
            let a = mp.add(ProgressBar::with_draw_target(Some(1000), ProgressDrawTarget::hidden()).with_style(style("A")));
            let b = mp.add(ProgressBar::with_draw_target(Some(1000), ProgressDrawTarget::hidden()).with_style(style("B")));
            (Some(mp), vec![a, b])
        } else {
            (None, vec![ProgressBar::with_draw_target(Some(1000), target).with_style(style("A"))])
        };
        for b in &bars {
            b.tick();
        }
        let shared = Arc::new(StdMutex::new(Shared { done: vec![], problem: None }));
        {
            let sh = shared.clone();
            term.lock().on_flush = Some(Arc::new(move |flush, rows| {
                let mut s = sh.lock().unwrap();
                if s.problem.is_some() {
                    return;
                }
                for line in &s.done {
                    let n = rows.iter().filter(|row| *row == line).count();
                    if n != 1 {
                        s.problem = Some(format!(
                            "flush {flush}: the line {line:?} (its call had returned) is on the terminal {n} times: {rows:?}"
                        ));
                        return;
                    }
                }
            }));
        }
        if sc.c("ticker_ms") > 0 {
            bars[0].enable_steady_tick(std::time::Duration::from_millis(sc.c("ticker_ms")));
        }
        let mut handles = vec![];
        for (i, ops) in sc.threads.iter().enumerate().skip(1) {
            let pb = bars[i % bars.len()].clone();
            let (mp2, t2, sh, ops) = (mp.clone(), term.clone(), shared.clone(), ops.clone());
            handles.push(verif_simrt::thread::spawn_named(&format!("user-{i}"), move || {
                run_logger(i as u64, &ops, &pb, &mp2, &t2, &sh);
                drop(pb);
            }));
        }
        run_logger(0, sc.threads.first().map(|v| &v[..]).unwrap_or(&[]), &bars[0], &mp, &term, &shared);
        for h in handles {
            if let Err(p) = h.join() {
                r.violate(if pid == "C01" { "C01.no_panic" } else { "C03.no_panic" }, format!("a thread panicked: {}", sched::panic_message(&p)));
            }
        }
        bars[0].disable_steady_tick();
        // a last forced frame
        match &mp {
            Some(mp) => {
                let _ = mp.println("END");
            }
            None => bars[0].println("END"),
        }
        term.lock().on_flush = None;
        let (done, problem) = {
            let s = shared.lock().unwrap();
            (s.done.clone(), s.problem.clone())
        };
        if let Some(p) = problem {
            r.violate(rule_log, p);
        }
        if r.violation.is_none() {
            let fin = term.transcript();
            let shown: Vec<&String> = fin.iter().filter(|row| is_log_row(row) && *row != "END").collect();
            let mut want = done.clone();
            want.sort();
            let mut got: Vec<String> = shown.iter().map(|s| s.to_string()).collect();
            got.sort();
            if want != got {
                r.violate(rule_log, format!("printed lines {done:?} but the terminal finally shows {shown:?} (whole transcript: {fin:?})"));
            } else {
                // each thread's lines in its emission order
                let mut last: std::collections::BTreeMap<u64, u64> = Default::default();
                for row in &shown {
                    if let Some((t, k)) = parse_log(row) {
                        if last.get(&t).map_or(false, |p| *p >= k) {
                            r.violate(rule_log, format!("lines of thread {t} out of emission order: {shown:?}"));
                            break;
                        }
                        last.insert(t, k);
                    }
                }
            }
            // every log row sits above the progress region of the last frame
            if r.violation.is_none() {
                if let Some(end) = fin.iter().position(|row| row == "END") {
                    if fin[end..].iter().any(|row| row.starts_with('L')) {
                        r.violate(rule_log, format!("a printed line below the last printed line: {fin:?}"));
                    }
                } else {
                    r.violate(rule_log, format!("the last printed line END is missing: {fin:?}"));
                }
            }
        }
        // C01 (standalone bar): nothing but the printed lines and the current frame
        if r.violation.is_none() && pid == "C01" && !multi {
            let fin = term.transcript();
            let (pos, msg) = (bars[0].position(), bars[0].message());
            let mut frame = vec![format!("A:{pos}:{msg}")];
            if two {
                frame.push(format!("A2:{pos}"));
            }
            let rest: Vec<String> = fin.iter().filter(|row| !is_log_row(row)).cloned().collect();
            let tail_ok = fin.len() >= frame.len() && fin[fin.len() - frame.len()..] == frame[..];
            if rest != frame || !tail_ok {
                r.violate(
                    "C01.transcript",
                    format!("the terminal must show the printed lines followed by the current frame {frame:?} and nothing else, but shows {fin:?}"),
                );
            }
        }
        r.probe_n("lines_printed", done.len() as u64);
        r.nontrivial = done.len() >= 2 && sc.threads.len() >= 2;
        drop(bars);
        drop(mp);
        r
    });
    let mut rep = finish_report(res, out);
    if let Some((rule, d)) = &rep.violation {
        if rule == "deadlock" {
            rep.violation = Some((format!("{pid}.deadlock"), d.clone()));
        }
    }
    rep
}

pub fn gen_sched(rng: &mut Rng, tier: Tier, pid: &'static str) -> Scenario {
    let mut sc = Scenario::new(pid, "sched", rng.next_u64());
    let multi = pid != "C01" && rng.chance(1, 2);
    sc.set("lines", rng.range(1, 2));
    sc.set("multi", multi as u64);
    sc.set("hz", *rng.pick(&[0, 0, 20, 255]));
    sc.set("ticker_ms", *rng.pick(&[0, 0, 1, 10, 100]));
    sc.set("buffered", rng.chance(1, 3) as u64);
    let nthreads = rng.range(2, if tier == Tier::Quick { 3 } else { 4 }) as usize;
    gen_sched_cfg(&mut sc, rng, 60 * nthreads as u64);
    sc.set("spurious_pm", *rng.pick(&[0, 0, 30]));
    let max_ops = if tier == Tier::Quick { 6 } else { 10 };
    let mut threads = vec![];
    for t in 0..nthreads {
        // thread 0 always prints; the others print in one run out of three
        let logger = t == 0 || rng.chance(1, 3);
        let mut ops = vec![];
        for _ in 0..rng.range(2, max_ops) {
            let nap = *rng.pick(&[0, 0, 500_000, 2_000_000, 150_000_000]);
            ops.push(match rng.below(12) {
                0 | 1 if logger => Op::new("println"),
                2 if logger => Op::new(if multi { "mp_println" } else { "println" }),
                3 | 4 if logger => Op::new("suspend").n(nap),
                5 if logger => Op::new(if multi { "mp_suspend" } else { "suspend" }).n(nap),
                6 => Op::new("advance").n(*rng.pick(&[0, 1_000_000, 60_000_000])),
                7 => Op::new("set_message").n(rng.below(5)),
                8 => Op::new("tick"),
                9 => Op::new("yield"),
                _ => Op::new("inc"),
            });
        }
        threads.push(ops);
    }
    sc.threads = threads;
    sc
}
