//! C02, scheduled part: bars updated concurrently from several simulated threads; every painted
//! frame must show, for each bar, a state that bar really had, never older than the one shown
//! before, each member once and in logical order; the last frame shows the final states.

use std::sync::atomic::{AtomicU64, Ordering};
use std::sync::{Arc, Mutex as StdMutex};

use indicatif::{MultiProgress, ProgressBar, ProgressDrawTarget, ProgressStyle};
use verif_simrt::rng::Rng;
use verif_simrt::{sched, World};

use crate::c07::{finish_report, gen_sched_cfg, sched_config};
use crate::common::*;
use crate::engine::Tier;
use crate::scenario::{Op, Report, Scenario};
use crate::simterm::SimTerm;

/// state path of a single-writer bar: after j operations it shows (pos, message version, finished)
fn path_of(ops: &[Op], has_len: bool) -> Vec<(u64, u64, bool)> {
    let mut v = vec![(0u64, 0u64, false)];
    let (mut pos, mut k, mut fin) = (0u64, 0u64, false);
    for op in ops {
        match op.k.as_str() {
            "inc" => pos += 1,
            "set_message" => k += 1,
            "finish" => {
                fin = true;
                if has_len {
                    pos = 100; // finish() moves the position to the length
                }
            }
            "abandon" => fin = true, // the position stays
            _ => {}
        }
        v.push((pos, k, fin));
    }
    v
}

/// `{pos}/{len}`: a bar without a length shows its position in both places
fn render_row(tag: &str, st: (u64, u64, bool), has_len: bool) -> String {
    format!("{tag}:{}/{}:m{}{}", st.0, if has_len { 100 } else { st.0 }, st.1, if st.2 { "F" } else { "." })
}

struct Frame {
    flush: u64,
    rows: Vec<String>,
    started: Vec<u64>,
    removed_s: bool,
    /// painted while MultiProgress::suspend / clear was in progress (the region is hidden on purpose)
    suspended: bool,
    /// per worker bar: 0 = handle alive, 1 = drop of the last handle in progress, 2 = dropped
    dropped: Vec<u64>,
    /// increments of the shared bar W that had started
    w_started: u64,
}

pub fn exec_sched(sc: &Scenario) -> Report {
    let sc2 = sc.clone();
    let mut cfg = sched_config(sc);
    cfg.step_cap = 200_000;
    cfg.atomics_yield = sc.c("atomics_yield") == 1;
    let (res, out) = World::run(cfg, move || {
        let sc = sc2;
        let mut r = Report::default();
        sched::name_current_thread("user-0");
        let term = SimTerm::new(60, 100);
        if sc.c("term_yield") == 1 {
            term.lock().yield_in_calls = true;
        }
        let hz = sc.c("hz");
        let target = if hz > 0 {
            ProgressDrawTarget::term_like_with_hz(Box::new(term.clone()), hz as u8)
        } else {
            ProgressDrawTarget::term_like(Box::new(term.clone()))
        };
        let mp = MultiProgress::with_draw_target(target);
        // optional last thread: pokes a clone of the structural bar S while S is being removed
        let poker = sc.c("poker") == 1 && sc.threads.len() >= 3;
        let nworkers = sc.threads.len().saturating_sub(1 + poker as usize).max(1);
        let style = |tag: &str| {
            ProgressStyle::with_template(&format!("{tag}:{{pos}}/{{len}}:{{msg}}{{spinner}}"))
                .unwrap()
                .tick_strings(&[".", "F"])
        };
        // the structural thread's own bar S comes first, worker bars B0.. follow
        let s_bar = mp.add(ProgressBar::with_draw_target(Some(100), ProgressDrawTarget::hidden()));
        s_bar.set_style(style("S"));
        s_bar.set_message("m0");
        let mut bars = vec![];
        // worker bars whose bit is set in no_len_mask have no length
        let has_len = |i: usize| (sc.c("no_len_mask") >> i) & 1 == 0;
        for i in 0..nworkers {
            let pb = mp.add(ProgressBar::with_draw_target(if has_len(i) { Some(100) } else { None }, ProgressDrawTarget::hidden()));
            pb.set_style(style(&format!("B{i}")));
            pb.set_message("m0");
            bars.push(pb);
        }
        // optional bar W without a length that every worker increments through its own clone: it
        // is rendered by one thread while the others move it
        let w_bar: Option<ProgressBar> = if sc.c("shared_w") == 1 {
            let pb = mp.add(ProgressBar::with_draw_target(None, ProgressDrawTarget::hidden()));
            pb.set_style(style("W"));
            pb.set_message("m0");
            Some(pb)
        } else {
            None
        };
        let w_started = Arc::new(AtomicU64::new(0));
        let started: Arc<Vec<AtomicU64>> = Arc::new((0..nworkers).map(|_| AtomicU64::new(0)).collect());
        let s_removed = Arc::new(AtomicU64::new(0)); // 0 = member, 1 = remove() in progress, 2 = removed
        let suspended = Arc::new(AtomicU64::new(0));
        let dropped: Arc<Vec<AtomicU64>> = Arc::new((0..nworkers).map(|_| AtomicU64::new(0)).collect());
        // position of the late bar T in the logical order (doubled ranks: S = 2, B_i = 2 i + 4)
        let t_rank = Arc::new(AtomicU64::new(2 * nworkers as u64 + 6));
        let frames: Arc<StdMutex<Vec<Frame>>> = Arc::new(StdMutex::new(vec![]));
        {
            let (st, fr, sr, su, dr, ws) = (started.clone(), frames.clone(), s_removed.clone(), suspended.clone(), dropped.clone(), w_started.clone());
            term.lock().on_flush = Some(Arc::new(move |flush, rows| {
                fr.lock().unwrap().push(Frame {
                    flush,
                    rows: rows.to_vec(),
                    started: st.iter().map(|a| a.load(Ordering::SeqCst)).collect(),
                    removed_s: sr.load(Ordering::SeqCst) == 2,
                    suspended: su.load(Ordering::SeqCst) == 1,
                    dropped: dr.iter().map(|a| a.load(Ordering::SeqCst)).collect(),
                    w_started: ws.load(Ordering::SeqCst),
                });
            }));
        }
        let finish_spans: Arc<StdMutex<Vec<(usize, usize, usize)>>> = Arc::new(StdMutex::new(vec![]));
        let paths: Vec<Vec<(u64, u64, bool)>> = (0..nworkers).map(|i| path_of(&sc.threads[i + 1], has_len(i))).collect();
        let mut handles = vec![];
        // workers whose bit is set in drop_mask own the only handle of their bar and drop it at
        // the end of their program (never bar 0: it is the reference bar of insert_before/after)
        let drop_mask = sc.c("drop_mask") & !1;
        let mut bars: Vec<Option<ProgressBar>> = bars.into_iter().map(Some).collect();
        for i in 0..nworkers {
            let owns = (drop_mask >> i) & 1 == 1;
            let pb = if owns { bars[i].take().unwrap() } else { bars[i].as_ref().unwrap().clone() };
            let ops = sc.threads[i + 1].clone();
            let st = started.clone();
            let dr = dropped.clone();
            let (w_clone, ws) = (w_bar.clone(), w_started.clone());
            let (fr2, spans) = (frames.clone(), finish_spans.clone());
            handles.push(verif_simrt::thread::spawn_named(&format!("user-{}", i + 1), move || {
                let mut k = 0u64;
                for op in ops.iter() {
                    st[i].fetch_add(1, Ordering::SeqCst);
                    match op.k.as_str() {
                        "inc" => pb.inc(1),
                        "set_message" => {
                            k += 1;
                            pb.set_message(format!("m{k}"));
                        }
                        "finish" | "abandon" => {
                            // finishing is a forced request: a frame showing the final state is
                            // painted before the call returns, whatever the limiter says
                            let before = fr2.lock().unwrap().len();
                            if op.k == "finish" {
                                pb.finish();
                            } else {
                                pb.abandon();
                            }
                            let after = fr2.lock().unwrap().len();
                            spans.lock().unwrap().push((i, before, after));
                        }
                        "w_inc" => {
                            if let Some(w) = &w_clone {
                                ws.fetch_add(1, Ordering::SeqCst);
                                w.inc(1);
                            }
                        }
                        "advance" => sched::advance(op.n0()),
                        _ => {}
                    }
                }
                drop(w_clone);
                if owns {
                    dr[i].store(1, Ordering::SeqCst);
                }
                drop(pb);
                if owns {
                    dr[i].store(2, Ordering::SeqCst);
                }
            }));
        }
        let t_shared: Arc<StdMutex<Option<ProgressBar>>> = Arc::new(StdMutex::new(None));
        if poker {
            let s_clone = s_bar.clone();
            let ops = sc.threads.last().cloned().unwrap_or_default();
            let mp2 = mp.clone();
            let t2 = t_shared.clone();
            let t_style = style("T");
            let b0_clone = bars[0].as_ref().unwrap().clone();
            let tr2 = t_rank.clone();
            handles.push(verif_simrt::thread::spawn_named("user-poker", move || {
                for op in ops.iter() {
                    match op.k.as_str() {
                        "add_t" => {
                            let already = t2.lock().unwrap().is_some();
                            if !already {
                                // (anchored variants: the anchor B0 is never removed, while the
                                // structural thread may remove S in front of it at any moment)
                                let nb = ProgressBar::with_draw_target(Some(5), ProgressDrawTarget::hidden());
                                let pb = match op.n0() % 3 {
                                    1 => {
                                        tr2.store(5, Ordering::SeqCst);
                                        mp2.insert_after(&b0_clone, nb)
                                    }
                                    2 => {
                                        tr2.store(3, Ordering::SeqCst);
                                        mp2.insert_before(&b0_clone, nb)
                                    }
                                    _ => mp2.add(nb),
                                };
                                pb.set_style(t_style.clone());
                                pb.set_message("m0");
                                pb.tick();
                                *t2.lock().unwrap() = Some(pb);
                            }
                        }
                        "s_update" => s_clone.update(|_| sched::advance(op.n0())),
                        "s_tick" => s_clone.tick(),
                        "s_set_message" => s_clone.set_message("m0"),
                        "advance" => sched::advance(op.n0()),
                        _ => {}
                    }
                }
                drop(s_clone);
            }));
        }
        // structural thread = this one
        let mut t_bar: Option<ProgressBar> = None;
        let mut logs: Vec<String> = vec![];
        for op in sc.threads.first().cloned().unwrap_or_default() {
            match op.k.as_str() {
                "mp_println" => {
                    let _ = mp.println(format!("L{}", op.n0()));
                    logs.push(format!("L{}", op.n0()));
                }
                "mp_suspend" => {
                    // external output while the region is hidden; the closure contains scheduling
                    // points so that other threads get their chance in the middle of it
                    let line = format!("U{}", op.n0());
                    let t2 = term.clone();
                    let l2 = line.clone();
                    suspended.store(1, Ordering::SeqCst);
                    mp.suspend(move || {
                        sched::yield_now();
                        t2.external_line(&l2);
                        sched::yield_now();
                    });
                    suspended.store(0, Ordering::SeqCst);
                    logs.push(line);
                }
                "s_tick" => s_bar.tick(),
                "remove_s" => {
                    if s_removed.load(Ordering::SeqCst) == 0 {
                        s_removed.store(1, Ordering::SeqCst);
                        mp.remove(&s_bar);
                        s_removed.store(2, Ordering::SeqCst);
                    }
                }
                "mp_clear" => {
                    suspended.store(1, Ordering::SeqCst);
                    let _ = mp.clear();
                    suspended.store(0, Ordering::SeqCst);
                }
                "mp_align" => mp.set_alignment(if op.n0() % 2 == 1 {
                    indicatif::MultiProgressAlignment::Bottom
                } else {
                    indicatif::MultiProgressAlignment::Top
                }),
                "add_t" => {
                    if t_bar.is_none() && !poker {
                        let nb = ProgressBar::with_draw_target(Some(5), ProgressDrawTarget::hidden());
                        let b0 = bars[0].as_ref().unwrap();
                        let end = 2 * nworkers as u64 + 6;
                        let (pb, rk) = match op.n0() % 5 {
                            1 => (mp.insert(0, nb), 1),
                            2 => (mp.insert_from_back(0, nb), end),
                            3 => (mp.insert_after(b0, nb), 5),
                            4 => (mp.insert_before(b0, nb), 3),
                            _ => (mp.add(nb), end),
                        };
                        t_rank.store(rk, Ordering::SeqCst);
                        pb.set_style(style("T"));
                        pb.set_message("m0");
                        pb.tick();
                        t_bar = Some(pb);
                    }
                }
                "advance" => sched::advance(op.n0()),
                "yield" => sched::yield_now(),
                _ => {}
            }
        }
        for h in handles {
            if let Err(p) = h.join() {
                r.violate("C02.no_panic", format!("worker panicked: {}", sched::panic_message(&p)));
            }
        }
        // what the MultiProgress holds for a member is the bar's latest state whenever the last
        // thing the bar did was a request that is always made (set_message, finish*, abandon*:
        // `inc` may be skipped by the position rate limiter): a forced frame shows it without
        // the bar being asked again
        let pre_idx = frames.lock().unwrap().len();
        let _ = mp.println("PRE");
        // final frame: every bar submits once more, then a forced paint
        for pb in bars.iter().flatten() {
            pb.tick();
        }
        let _ = mp.println("END");
        term.lock().on_flush = None;
        // ---- evaluate the recorded frames
        let frames = std::mem::take(&mut *frames.lock().unwrap());
        let mut last_shown: Vec<usize> = vec![0; nworkers];
        let mut w_last: u64 = 0;
        let mut appeared: Vec<bool> = vec![false; nworkers];
        let t_rank = t_rank.load(Ordering::SeqCst) as usize;
        let rank = |tag: &str| -> Option<usize> {
            if tag == "S" {
                Some(2)
            } else if tag == "T" {
                Some(t_rank)
            } else if tag == "W" {
                Some(2 * nworkers + 4)
            } else {
                tag.strip_prefix('B').and_then(|n| n.parse::<usize>().ok()).map(|n| 2 * n + 4)
            }
        };
        'frames: for (fi, f) in frames.iter().enumerate() {
            let mut prev_rank: Option<usize> = None;
            let mut seen = vec![false; nworkers];
            let mut tags_seen: Vec<String> = vec![];
            for row in &f.rows {
                if row.is_empty() {
                    continue; // padding rows of bottom alignment
                }
                let tag = row.split(':').next().unwrap_or("");
                if row.starts_with('L') || row.starts_with('U') || row == "END" || row == "PRE" {
                    if prev_rank.is_some() {
                        r.violate("C02.frame_order", format!("frame #{} (flush {}): a log line below a bar row: {:?}", fi, f.flush, f.rows));
                        break 'frames;
                    }
                    continue;
                }
                let rk = match rank(tag) {
                    Some(rk) => rk,
                    None => {
                        r.violate("C02.frame_garbage", format!("frame #{fi}: unexpected row {row:?} in {:?}", f.rows));
                        break 'frames;
                    }
                };
                if tags_seen.iter().any(|t| t == tag) {
                    r.violate("C02.frame_order", format!("frame #{fi} (flush {}): a bar is shown twice: {:?}", f.flush, f.rows));
                    break 'frames;
                }
                tags_seen.push(tag.to_string());
                // a bar whose last handle is gone (or going) may linger as static text above
                // lines printed later: it takes no part in the order of the live region
                let gone = tag
                    .strip_prefix('B')
                    .and_then(|n| n.parse::<usize>().ok())
                    .map_or(false, |i| i < nworkers && f.dropped[i] >= 1);
                if !gone {
                    if prev_rank.map_or(false, |p| rk <= p) {
                        r.violate(
                            "C02.frame_order",
                            format!("frame #{fi} (flush {}): bars out of logical order: {:?}", f.flush, f.rows),
                        );
                        break 'frames;
                    }
                    prev_rank = Some(rk);
                }
                if tag == "T" && !row.starts_with("T:0/5:m0") {
                    r.violate("C02.state_never_had", format!("frame #{fi}: bar T is shown as {row:?}, a state it never had"));
                    break 'frames;
                }
                if tag == "W" {
                    // "W:<pos>/<len>:..." - no length: both numbers are the position at the draw
                    let nums = row.split(':').nth(1).unwrap_or("");
                    let (a, b) = nums.split_once('/').unwrap_or(("", ""));
                    let (a, b) = (a.parse::<u64>().ok(), b.parse::<u64>().ok());
                    match (a, b) {
                        (Some(a), Some(b)) if a == b && a >= w_last && a <= f.w_started => w_last = a,
                        _ => {
                            r.violate(
                                "C02.state_never_had",
                                format!(
                                    "frame #{fi} (flush {}): the shared bar W (no length) is shown as {row:?}: position and length must be one and the same position, not below {w_last} (shown before), not above {} (increments started)",
                                    f.flush, f.w_started
                                ),
                            );
                            break 'frames;
                        }
                    }
                }
                if tag == "S" && f.removed_s {
                    r.violate("C02.removed_bar_shown", format!("frame #{fi}: the removed bar S is painted after remove() returned: {:?}", f.rows));
                    break 'frames;
                }
                if let Some(i) = tag.strip_prefix('B').and_then(|n| n.parse::<usize>().ok()) {
                    if i >= nworkers {
                        r.violate("C02.frame_garbage", format!("frame #{fi}: unknown bar row {row:?}"));
                        break 'frames;
                    }
                    seen[i] = true;
                    // which state of the bar's path is this?
                    let j = paths[i].iter().position(|st| render_row(&format!("B{i}"), *st, has_len(i)) == *row);
                    match j {
                        None => {
                            r.violate(
                                "C02.state_never_had",
                                format!("frame #{fi} (flush {}): bar B{i} is shown as {row:?}, a state it never had (its states: {:?})", f.flush, paths[i]),
                            );
                            break 'frames;
                        }
                        Some(j) => {
                            // several consecutive path entries can render equally ("advance" steps): take the span
                            let j_hi = paths[i].iter().rposition(|st| render_row(&format!("B{i}"), *st, has_len(i)) == *row).unwrap_or(j);
                            if j_hi < last_shown[i] {
                                r.violate(
                                    "C02.older_than_before",
                                    format!("frame #{fi} (flush {}): bar B{i} shows state #{j_hi} {row:?}, older than state #{} shown in an earlier frame", f.flush, last_shown[i]),
                                );
                                break 'frames;
                            }
                            if j as u64 > f.started[i] {
                                r.violate(
                                    "C02.state_from_future",
                                    format!("frame #{fi}: bar B{i} shows state #{j} but only {} of its operations had started", f.started[i]),
                                );
                                break 'frames;
                            }
                            last_shown[i] = last_shown[i].max(j);
                        }
                    }
                }
            }
            for i in 0..nworkers {
                if f.suspended {
                    break;
                }
                if f.dropped[i] >= 1 {
                    continue;
                }
                if appeared[i] && !seen[i] {
                    r.violate("C02.member_missing", format!("frame #{fi} (flush {}): member B{i} was shown before but is missing: {:?}", f.flush, f.rows));
                    break 'frames;
                }
                appeared[i] |= seen[i];
            }
        }
        // every finish*/abandon* painted a frame with the final state before it returned
        if r.violation.is_none() {
            for (i, before, after) in finish_spans.lock().unwrap().iter() {
                let want = render_row(&format!("B{i}"), *paths[*i].last().unwrap(), has_len(*i));
                let painted = frames[(*before).min(frames.len())..(*after).min(frames.len())]
                    .iter()
                    .any(|f| f.rows.iter().any(|row| *row == want));
                if !painted {
                    r.violate(
                        "C02.final_frame",
                        format!(
                            "finishing B{i} returned without a frame showing its final state {want:?} having been painted during the call (frames #{before}..#{after})"
                        ),
                    );
                    break;
                }
                r.probe("finish_frames_checked");
            }
        }
        // the forced frame painted before the bars were asked again shows the final state of
        // every bar that ended with a request that is always made
        if r.violation.is_none() {
            if let Some(f) = frames.get(pre_idx) {
                for i in 0..nworkers {
                    let last = sc.threads[i + 1].iter().rev().find(|o| matches!(o.k.as_str(), "inc" | "set_message" | "finish" | "abandon"));
                    if bars[i].is_none() || !last.map_or(false, |o| o.k != "inc") {
                        continue;
                    }
                    let want = render_row(&format!("B{i}"), *paths[i].last().unwrap(), has_len(i));
                    if !f.rows.iter().any(|row| *row == want) {
                        r.violate(
                            "C02.stale_member",
                            format!("after all threads had finished a forced frame shows {:?}: B{i} ended with {} and its final state is {want:?}", f.rows, last.map_or("", |o| o.k.as_str())),
                        );
                        break;
                    }
                    r.probe("stored_states_checked");
                }
            }
        }
        // the last frame shows the final states
        if r.violation.is_none() {
            if let Some(f) = frames.last() {
                for i in 0..nworkers {
                    if bars[i].is_none() {
                        continue; // dropped: cleared, or static text that the last println wiped
                    }
                    let want = render_row(&format!("B{i}"), *paths[i].last().unwrap(), has_len(i));
                    if !f.rows.iter().any(|row| *row == want) {
                        r.violate("C02.final_frame", format!("the last frame does not show the final state {want:?} of B{i}: {:?}", f.rows));
                        break;
                    }
                }
            } else {
                r.violate("C02.final_frame", "no frame was painted at all".to_string());
            }
        }
        // every line printed through println / by the closure of suspend stays, once, in order
        if r.violation.is_none() {
            let fin = term.transcript();
            let shown: Vec<&String> = fin.iter().filter(|row| row.starts_with('L') || row.starts_with('U')).collect();
            if shown.len() != logs.len() || shown.iter().zip(logs.iter()).any(|(a, b)| *a != b) {
                r.violate(
                    "C02.log_lines",
                    format!("printed lines {logs:?} but the terminal finally shows {shown:?} (whole transcript: {fin:?})"),
                );
            }
        }
        r.probe_n("frames_checked", frames.len() as u64);
        for op in sc.threads.first().into_iter().flatten() {
            match op.k.as_str() {
                "mp_clear" => r.probe("sched_mp_clear"),
                "mp_align" => r.probe("sched_set_alignment"),
                "add_t" if op.n0() % 5 != 0 => r.probe("sched_insert_variant"),
                "mp_suspend" => r.probe("sched_mp_suspend"),
                _ => {}
            }
        }
        if bars.iter().any(|b| b.is_none()) {
            r.probe("sched_last_handle_dropped_by_worker");
        }
        if frames.iter().any(|f| f.dropped.iter().any(|d| *d == 1)) {
            r.probe("sched_frame_painted_during_drop");
        }
        r.nontrivial = frames.len() >= 3 && nworkers >= 2;
        drop(t_bar);
        drop(w_bar);
        drop(t_shared.lock().unwrap().take());
        drop(bars);
        drop(s_bar);
        drop(mp);
        r
    });
    let mut rep = finish_report(res, out);
    if let Some((rule, d)) = &rep.violation {
        if rule == "deadlock" {
            rep.violation = Some(("C02.deadlock".into(), d.clone()));
        }
    }
    rep
}

pub fn gen_sched(rng: &mut Rng, tier: Tier) -> Scenario {
    let mut sc = Scenario::new("C02", "sched", rng.next_u64());
    let nworkers = rng.range(2, if tier == Tier::Quick { 3 } else { 4 }) as usize;
    sc.set("hz", *rng.pick(&[0, 0, 20, 255]));
    sc.set("atomics_yield", rng.chance(1, 3) as u64);
    // in half of the runs a thread can be descheduled in the middle of a draw (at every terminal
    // call), i.e. while it holds the MultiProgress lock
    sc.set("term_yield", rng.chance(1, 2) as u64);
    gen_sched_cfg(&mut sc, rng, 80 * nworkers as u64);
    sc.set("spurious_pm", 0);
    let shared_w = rng.chance(1, 3);
    sc.set("shared_w", shared_w as u64);
    if shared_w {
        sc.set("atomics_yield", 1);
    }
    let mut threads = vec![];
    // structural thread
    let mut s_ops = vec![];
    for _ in 0..rng.range(0, 6) {
        s_ops.push(match rng.below(9) {
            7 => Op::new("mp_clear"),
            8 => Op::new("mp_align").n(rng.below(2)),
            6 => Op::new("mp_suspend").n(rng.below(100)),
            0 | 1 => Op::new("mp_println").n(rng.below(100)),
            2 => Op::new("s_tick"),
            3 => Op::new("remove_s"),
            4 => Op::new("add_t").n(rng.below(5)),
            _ => Op::new("advance").n(*rng.pick(&[0, 1_000_000, 60_000_000])),
        });
    }
    threads.push(s_ops);
    if rng.chance(1, 3) {
        sc.set("drop_mask", rng.below(1 << nworkers));
    }
    if rng.chance(1, 3) {
        sc.set("no_len_mask", rng.below(1 << nworkers));
    }
    for _ in 0..nworkers {
        let n = rng.range(3, if tier == Tier::Quick { 8 } else { 12 });
        let mut ops = vec![];
        let mut finished = false;
        for k in 0..n {
            if finished {
                break;
            }
            if shared_w && rng.chance(1, 3) {
                ops.push(Op::new("w_inc"));
                continue;
            }
            ops.push(match rng.below(10) {
                0..=4 => Op::new("inc"),
                5..=7 => Op::new("set_message"),
                8 => Op::new("advance").n(*rng.pick(&[0, 1_000_000, 4_000_000, 60_000_000])),
                _ => {
                    if k + 1 == n {
                        finished = true;
                        Op::new(if rng.chance(1, 4) { "abandon" } else { "finish" })
                    } else {
                        Op::new("inc")
                    }
                }
            });
        }
        threads.push(ops);
    }
    if rng.chance(1, 2) {
        sc.set("poker", 1);
        let mut ops = vec![];
        for _ in 0..rng.range(1, 5) {
            ops.push(match rng.below(6) {
                0 | 1 => Op::new("s_update").n(*rng.pick(&[0, 1_000_000, 30_000_000])),
                2 => Op::new("s_tick"),
                3 | 4 => Op::new("add_t").n(rng.below(3)),
                _ => Op::new("s_set_message"),
            });
        }
        threads.push(ops);
    }
    sc.threads = threads;
    sc
}
