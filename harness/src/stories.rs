//! Hand written regression stories (the quick tier's fixed corpus) and the predicates of the
//! known findings for the terminal-facing checks.

use crate::scenario::{Op, Scenario};

fn add(kind: u64, arg: u64, len: u64, on_finish: u64, template: &str) -> Op {
    Op::new("add").n(kind).n(arg).n(1).n(len).n(on_finish).n(8).s(template).s("fin").s("")
}

fn multi(prop: &str, seed: u64, w: u64, h: u64, hz: u64, bottom: u64, ops: Vec<Op>) -> Scenario {
    let mut s = Scenario::new(prop, "multi", seed);
    s.set("w", w);
    s.set("h", h);
    s.set("multi", 1);
    s.set("hz", hz);
    s.set("bottom", bottom);
    s.threads = vec![ops];
    s
}

fn single(prop: &str, seed: u64, w: u64, h: u64, hz: u64, template: &str, on_finish: u64, ops: Vec<Op>) -> Scenario {
    let mut s = Scenario::new(prop, "single", seed);
    s.set("w", w);
    s.set("h", h);
    s.set("hz", hz);
    let mut all = vec![Op::new("new").n(9).n(0).n(1).n(10).n(on_finish).n(8).s(template).s("fin").s("")];
    all.extend(ops);
    s.threads = vec![all];
    s
}

pub fn stories(prop: &str) -> Vec<Scenario> {
    let mut v = vec![];
    // F1: second bar finishes first, first bar is dropped, println
    let f1 = |p: &str| {
        multi(
            p,
            101,
            40,
            60,
            0,
            0,
            vec![
                add(0, 0, 10, 0, "{obs}A {msg}{pos}"),
                add(0, 0, 10, 0, "{obs}B {msg}{pos}"),
                Op::new("mp_println").s("L1"),
                Op::new("mp_println").s("L2"),
                Op::new("tick").n(0),
                Op::new("tick").n(1),
                Op::new("drop_all").n(1),
                Op::new("drop_all").n(0),
                Op::new("mp_println").s("X"),
            ],
        )
    };
    // F2: rate limited ticks while a dropped bar waits to be reaped
    let f2 = |p: &str| {
        let mut ops = vec![
            add(0, 0, 10, 0, "{obs}A {pos}"),
            add(0, 0, 10, 0, "{obs}B {pos}"),
            add(0, 0, 10, 0, "{obs}C {pos}"),
        ];
        for i in 0..5 {
            ops.push(Op::new("mp_println").s(format!("log{i}")));
        }
        ops.push(Op::new("tick").n(0));
        ops.push(Op::new("tick").n(1));
        ops.push(Op::new("tick").n(2));
        // exhaust the limiter's burst allowance first (the drops below are forced draws)
        ops.push(Op::new("burn").n(2).n(30));
        ops.push(Op::new("drop_all").n(1));
        ops.push(Op::new("drop_all").n(0));
        for _ in 0..30 {
            ops.push(Op::new("tick").n(2));
        }
        ops.push(Op::new("mp_println").s("last"));
        multi(p, 102, 40, 60, 1, 0, ops)
    };
    // F3: bar-level println after a reaped bar, then mp.println
    let f3 = |p: &str| {
        multi(
            p,
            103,
            40,
            60,
            0,
            0,
            vec![
                add(0, 0, 10, 0, "{obs}Z {pos}"),
                add(0, 0, 10, 0, "{obs}B {pos}"),
                Op::new("tick").n(0),
                Op::new("tick").n(1),
                Op::new("drop_all").n(0),
                Op::new("println").n(1).n(0).s("L"),
                Op::new("mp_println").s("M"),
            ],
        )
    };
    // F4: text-only draw, then a frame whose first line is empty
    let f4 = |p: &str| {
        single(
            p,
            104,
            10,
            60,
            0,
            "{obs}{msg}",
            0,
            vec![
                Op::new("println").n(0).n(0).s("log1"),
                Op::new("set_message").n(0).n(0).s("\nfoo"),
                Op::new("set_message").n(0).n(0).s("bar"),
            ],
        )
    };
    // F11: bottom alignment, head bar reaped while blank shift rows are present
    let f11 = |p: &str| {
        multi(
            p,
            111,
            40,
            60,
            0,
            1,
            vec![
                add(0, 0, 10, 2, "{obs}A {pos}"),
                add(0, 0, 10, 0, "{obs}B {pos}"),
                add(0, 0, 10, 0, "{obs}C {pos}"),
                Op::new("tick").n(0),
                Op::new("tick").n(1),
                Op::new("tick").n(2),
                Op::new("finish").n(0).n(2).s(""),
                Op::new("drop_all").n(0),
                Op::new("drop_all").n(1),
                Op::new("tick").n(2),
            ],
        )
    };
    // remove() of the bar above a finished bar, a redraw swallowed by the exhausted limiter, drop
    // of the finished bar (now first), next painted frame
    let rm_limited = |p: &str| {
        multi(
            p,
            112,
            40,
            60,
            1,
            0,
            vec![
                add(0, 0, 10, 0, "{obs}X {pos}"),
                add(0, 0, 10, 0, "{obs}Z {pos}"),
                add(0, 0, 10, 0, "{obs}C {pos}"),
                Op::new("tick").n(0),
                Op::new("tick").n(1),
                Op::new("tick").n(2),
                Op::new("burn").n(2).n(30),
                Op::new("finish").n(1).n(0).s(""),
                Op::new("mp_remove").n(0),
                Op::new("tick").n(2),
                Op::new("drop_all").n(1),
                Op::new("advance").n(2_000_000_000),
                Op::new("tick").n(2),
            ],
        )
    };
    // println reaps a finished bar without keeping its rows; the bar that became first is dropped
    // before the next draw
    let println_reap = |p: &str| {
        multi(
            p,
            113,
            1,
            12,
            0,
            0,
            vec![
                add(0, 0, 0, 0, "{obs}B0a{len}{msg}\nB0b{pos}{msg}"),
                Op::new("add").n(2).n(1).n(0).n(0).n(0).n(8).s("{obs}").s("").s(""),
                add(0, 0, 0, 0, "{obs}{len}{msg}"),
                add(0, 0, 0, 0, "{obs}{len}:{prefix}"),
                Op::new("finish_using_style").n(2),
                Op::new("drop").n(0),
                Op::new("drop").n(1),
                Op::new("mp_println").s(""),
                add(0, 0, 0, 0, "{obs}B4{prefix}{prefix}{pos}"),
                Op::new("drop_all").n(2),
                Op::new("tick").n(4),
            ],
        )
    };
    match prop {
        "C01" => {
            v.push(f4("C01"));
            v.push(single(
                "C01",
                105,
                5,
                60,
                0,
                "{obs}{msg}\n{pos}/{len}",
                0,
                vec![
                    Op::new("set_message").n(0).n(0).s("abcdefghij"),
                    Op::new("set_message").n(0).n(0).s("ab"),
                    Op::new("println").n(0).n(0).s(""),
                    Op::new("finish").n(0).n(2).s(""),
                    Op::new("println").n(0).n(0).s("after"),
                ],
            ));
        }
        "C02" => {
            v.push(println_reap("C02"));
            v.push(rm_limited("C02"));
            v.push(f1("C02"));
            v.push(f3("C02"));
            v.push(f11("C02"));
        }
        "C03" => {
            v.push(f1("C03"));
            v.push(f2("C03"));
            v.push(f3("C03"));
            v.push(f4("C03"));
        }
        "C04" => {
            v.push(println_reap("C04"));
            v.push(rm_limited("C04"));
            v.push(f11("C04"));
            v.push(f1("C04"));
        }
        "C19" => {
            // a frame cut by the terminal height leaves the cursor behind its last line; when all
            // of its rows are then kept as static text the next frame starts on a fresh row
            v.push(multi(
                "C19",
                192,
                10,
                2,
                0,
                0,
                vec![
                    add(0, 0, 10, 0, "{obs}aaa"),
                    add(0, 0, 10, 0, "{obs}bbb"),
                    add(0, 0, 10, 0, "{obs}ccc"),
                    Op::new("tick").n(0),
                    Op::new("tick").n(1),
                    Op::new("tick").n(2),
                    Op::new("finish").n(0).n(0).s(""),
                    Op::new("finish").n(1).n(0).s(""),
                    Op::new("drop_all").n(0),
                    Op::new("drop_all").n(1),
                    Op::new("tick").n(2),
                ],
            ));
            // ... and so does what is printed after lines above a bar too tall for the terminal
            v.push(multi(
                "C19",
                193,
                10,
                2,
                0,
                0,
                vec![
                    Op::new("add").n(0).n(0).n(1).n(10).n(0).n(8).s("{obs}{msg}").s("fin").s("").s("abcdefghijklmnopqrstuvwxyz"),
                    Op::new("tick").n(0),
                    Op::new("mp_println").s("hello"),
                    Op::new("set_message").n(0).n(0).s("ok"),
                ],
            ));
            // a frame that has lines but paints none of them (the only live bar is taller than the
            // terminal) leaves the cursor below the static rows of a finished bar: the next println
            // clears those rows completely, not all but the first
            v.push(multi(
                "C19",
                194,
                10,
                3,
                0,
                0,
                vec![
                    Op::new("add").n(0).n(0).n(1).n(10).n(0).n(8).s("{obs}{msg}").s("fin").s("").s("zzzzzzzzzzzz"),
                    Op::new("add").n(0).n(0).n(1).n(10).n(0).n(8).s("{obs}{msg}").s("fin").s("").s("lll"),
                    Op::new("tick").n(0),
                    Op::new("tick").n(1),
                    Op::new("finish").n(0).n(0).s(""),
                    Op::new("drop_all").n(0),
                    Op::new("set_message").n(1).n(0).s("LLLLLLLLLLLLLLLLLLLLLLLLLLLLLLLLLLL"),
                    Op::new("mp_println").s("hello"),
                    Op::new("set_message").n(1).n(0).s("ok"),
                ],
            ));
            // a finished bar that never fitted the terminal is reaped by a draw; a later println
            // must not clear rows for it (there are none on the screen)
            v.push(multi(
                "C19",
                191,
                10,
                3,
                0,
                0,
                vec![
                    Op::new("mp_println").s("hello"),
                    add(0, 0, 10, 0, "{obs}top"),
                    Op::new("add").n(0).n(0).n(1).n(10).n(0).n(8).s("{obs}{msg}").s("fin").s("").s("abcdefghijklmnopqrstuvwxyz012345678"),
                    Op::new("tick").n(0),
                    Op::new("drop_all").n(1),
                    Op::new("mp_remove").n(0),
                    add(0, 0, 10, 0, "{obs}d"),
                    Op::new("tick").n(2),
                    Op::new("tick").n(2),
                    Op::new("mp_println").s("x"),
                    Op::new("tick").n(2),
                ],
            ));
            let mut ops = vec![];
            for i in 0..6 {
                ops.push(add(0, 0, 10, 0, &format!("{{obs}}B{i} {{pos}}")));
                ops.push(Op::new("tick").n(i));
            }
            for i in 0..6 {
                ops.push(Op::new("finish").n(i).n(0).s(""));
                ops.push(Op::new("drop_all").n(i));
            }
            v.push(multi("C19", 119, 6, 4, 0, 0, ops));
        }
        _ => {}
    }
    v
}

/// Predicates of the known findings (ids must also be listed as open in known-findings.json).
pub fn known(_prop: &str, rule: &str, _sc: &Scenario, detail: &str) -> Option<&'static str> {
    // (the two bottom-alignment findings KF-BOTTOM-PRINT, KF-BOTTOM-REAP were repaired)
    // KF-WIDE-WRAP: a layout violation in a history in which a line containing a double-width
    // character wraps (the executor marks those histories); panics and deadlocks are never
    // covered by it
    if detail.contains("KF-WIDE-WRAP") && !(rule.ends_with(".no_panic") || rule.ends_with("deadlock")) {
        return Some("KF-WIDE-WRAP");
    }
    None
}
