//! The sequential terminal-facing checks: C01 (single bar), C02 (MultiProgress, sequential part),
//! C03 (log lines), C04 (finishing/dropping), C19 (geometry). They share the Stage executor and
//! the transcript oracle and differ in workload emphasis and in which rules they report.

use verif_simrt::rng::Rng;
use verif_simrt::{Config, World};

use crate::c07::finish_report;
use crate::engine::{Budget, Check, Tier};
use crate::gen::*;
use crate::scenario::{Op, Report, Scenario};
use crate::stage::{Rules, Stage};

#[derive(Clone, Copy, PartialEq, Eq, Debug)]
pub enum Flavor {
    C01,
    C02,
    C03,
    C04,
    C16,
    C19,
}

pub struct TermCheck(pub Flavor);

impl TermCheck {
    fn pid(&self) -> &'static str {
        match self.0 {
            Flavor::C01 => "C01",
            Flavor::C02 => "C02",
            Flavor::C03 => "C03",
            Flavor::C04 => "C04",
            Flavor::C16 => "C16",
            Flavor::C19 => "C19",
        }
    }
}

pub fn rules_for(prop: &'static str) -> Rules {
    Rules {
        transcript: true,
        cursor: prop == "C01",
        forced_paint: true,
        height_cut: prop == "C19" || prop == "C03",
        prop,
    }
}

pub fn exec_stage(sc: &Scenario, prop: &'static str) -> Report {
    let sc2 = sc.clone();
    let (res, out) = World::run(Config::sequential(sc.seed), move || {
        let sc = sc2;
        let mut r = Report::default();
        let mut st = Stage::new(&sc, rules_for(prop));
        let ops = sc.threads.first().cloned().unwrap_or_default();
        let mut executed = 0u64;
        let mut painted = 0u64;
        for op in ops.iter() {
            let res = st.exec(op, &mut r);
            if std::env::var_os("VERIF_TRACE").is_some() {
                eprintln!("== op#{} {} skipped={} flushed={} calls={}", st.op_idx, op.short(), res.skipped, res.flushed, res.calls);
                for row in st.term.transcript() {
                    eprintln!("      |{row}");
                }
            }
            if let Some(p) = res.panic {
                r.violate(&format!("{prop}.no_panic"), format!("op#{} {} panicked: {p}", st.op_idx, op.short()));
            }
            if st.wide_wrap {
                if let Some((_, d)) = r.violation.as_mut() {
                    if !d.contains("KF-WIDE-WRAP") {
                        d.push_str("\n[a line with a double-width character wraps or may wrap in this history: KF-WIDE-WRAP]");
                    }
                }
            }
            if prop == "C16" && r.violation.is_none() {
                if let Some(t) = st.term.lock().tab_seen.clone() {
                    r.violate("C16.tab_reached_terminal", format!("op#{} {}: a TAB character reached the terminal inside {t:?}", st.op_idx, op.short()));
                }
                for s in st.bars.iter() {
                    if let Some(h) = s.handles.first() {
                        let (m, p) = (h.message(), h.prefix());
                        let (em, ep) = (s.abs.expand(&s.abs.msg), s.abs.expand(&s.abs.prefix));
                        if m != em || p != ep {
                            r.violate(
                                "C16.getter_expansion",
                                format!("op#{} {}: message()/prefix() = {m:?}/{p:?}, expected the texts with every tab replaced by {} spaces: {em:?}/{ep:?}", st.op_idx, op.short(), s.abs.tab_width),
                            );
                        }
                    }
                }
            }
            if !res.skipped {
                executed += 1;
            }
            if res.flushed {
                painted += 1;
            }
            if r.violation.is_some() || r.harness_error.is_some() {
                break;
            }
            if st.out_of_scope.is_some() {
                r.inconclusive = true;
                r.probe("out_of_scope_height");
                break;
            }
        }
        r.probe_n("skipped_ops", st.skipped_ops);
        if sc.c("pty") == 1 {
            r.probe(if st.term.is_pty() { "pty_runs" } else { "pty_unavailable" });
            let b = st.term.lock().pty.as_ref().map_or(0, |p| p.bytes);
            r.probe_n("pty_bytes", b);
        }
        r.nontrivial = executed >= 3 && painted >= 2 && !r.inconclusive;
        // dropping what is left paints final frames: still the library under test
        if let Err(p) = crate::common::call(|| st.teardown()) {
            r.violate(&format!("{prop}.no_panic"), format!("dropping the remaining bars panicked: {p}"));
            std::mem::forget(st);
        }
        r
    });
    finish_report(res, out)
}

fn pick_w(rng: &mut Rng, small: bool) -> u64 {
    if small {
        rng.range(1, 8)
    } else {
        match rng.below(12) {
            // (any width now and then: row arithmetic that is only wrong for a sparse set of widths)
            10 | 11 => rng.range(13, 260),
            0..=4 => rng.range(1, 12),
            5 | 6 => 20,
            7 => 40,
            8 => 80,
            // (beyond 256: wider than any fixed-size scratch buffer one might be tempted to use)
            _ => *rng.pick(&[200, 200, 300, 1000]),
        }
    }
}

fn new_bar_op_tabs(rng: &mut Rng, kind: u64, id: usize) -> Op {
    let tag = format!("B{id}");
    Op::new(if kind == 9 { "new" } else { "add" })
        .n(kind)
        .n(0)
        .n(1)
        .n(10)
        .n(rng.below(5))
        .n(*rng.pick(&[8, 0, 1, 2, 4, 13, 8, 0, 1, 2, 4, 13, 33, 70]))
        .n(rng.below(24))
        .s(gen_template(rng, &tag, true))
        .s(gen_tabbed(rng, "F"))
        .s(if rng.chance(1, 2) { gen_tabbed(rng, "o") } else { String::new() })
        .s(gen_tabbed(rng, "m"))
        .s(gen_tabbed(rng, "p"))
}

fn new_bar_op(rng: &mut Rng, kind: u64, arg: u64, id: usize, w: usize, special: bool) -> Op {
    let tag = format!("B{id}");
    let mut op = Op::new(if kind == 9 { "new" } else { "add" })
        .n(kind)
        .n(arg)
        .n(rng.chance(3, 4) as u64)
        .n(*rng.pick(&[0, 1, 5, 10, 100]))
        .n(rng.below(5))
        .n(8)
        .s(gen_template(rng, &tag, false))
        .s(gen_line(rng, w, "F", false))
        // (the custom key mostly prints nothing; sometimes a text with a line break)
        .s(if rng.chance(1, 12) { *rng.pick(&["o", "o1\no2", "\n", "o\n"]) } else { "" });
    if rng.chance(1, 3) {
        op = op.s(gen_text(rng, w, "m", 2, special));
    }
    op
}

fn bar_op(rng: &mut Rng, b: u64, w: usize, special: bool, fl: Flavor) -> Op {
    let weights: [u32; 14] = match fl {
        Flavor::C01 => [10, 8, 4, 12, 4, 4, 3, 6, 4, 2, 4, 2, 1, 1],
        Flavor::C02 | Flavor::C19 => [10, 8, 3, 10, 2, 2, 2, 4, 2, 1, 4, 2, 1, 1],
        Flavor::C03 => [8, 6, 2, 6, 1, 1, 2, 14, 6, 1, 4, 1, 1, 1],
        Flavor::C04 => [8, 10, 4, 6, 1, 1, 2, 3, 1, 2, 10, 4, 2, 3],
        Flavor::C16 => [4, 2, 1, 10, 8, 8, 1, 1, 1, 1, 6, 2, 2, 0],
    };
    if fl == Flavor::C16 {
        // texts with tabs; tab width changes
        if rng.chance(1, 4) {
            if rng.chance(1, 60) {
                // far wider than any terminal: the getters still return every tab as that many
                // spaces (the frame then leaves the scope of the layout rules)
                return Op::new("set_tab_width").n(b).n(*rng.pick(&[65_535, 65_536, 100_000]));
            }
            return Op::new("set_tab_width").n(b).n(*rng.pick(&[0, 1, 2, 4, 8, 8, 13, 0, 1, 2, 4, 8, 13, 33, 70]));
        }
        if rng.chance(1, 8) {
            return Op::new(if rng.chance(1, 2) { "snapshot_style" } else { "set_style_snapshot" }).n(b);
        }
        return match rng.weighted(&weights) {
            0 => Op::new("tick").n(b),
            1 => Op::new("inc").n(b).n(rng.below(4)),
            2 => Op::new("set_position").n(b).n(rng.below(120)),
            3 => Op::new("set_message").n(b).n(0).s(gen_tabbed(rng, "m")),
            4 => Op::new("set_prefix").n(b).n(0).s(gen_tabbed(rng, "p")),
            5 => Op::new("set_style").n(b).n(rng.below(4)).s(gen_template(rng, &format!("S{b}"), true)).s(if rng.chance(1, 2) { gen_tabbed(rng, "o") } else { String::new() }),
            6 => Op::new("set_length").n(b).n(rng.below(200)),
            7 => Op::new("println").n(b).n(0).s("L"),
            8 => Op::new("suspend").n(b).n(0).s("U"),
            9 => Op::new("reset").n(b),
            10 => Op::new("finish").n(b).n(rng.below(5)).s(gen_tabbed(rng, "f")),
            11 => Op::new("finish_using_style").n(b),
            _ => Op::new("force_draw").n(b),
        };
    }
    match rng.weighted(&weights) {
        0 => Op::new("tick").n(b),
        1 => Op::new("inc").n(b).n(rng.below(4)),
        2 => Op::new("set_position").n(b).n(rng.below(120)),
        3 => Op::new("set_message").n(b).n(0).s(gen_text(rng, w, "m", 3, special)),
        4 => Op::new("set_prefix").n(b).n(0).s(gen_text(rng, w, "p", 2, special)),
        5 => Op::new("set_style").n(b).n(rng.below(4)).s(gen_template(rng, &format!("S{b}"), false)).s(""),
        6 => Op::new("set_length").n(b).n(rng.below(200)),
        7 => Op::new("println").n(b).n(0).s(gen_text(rng, w, "L", 3, special)),
        8 => Op::new("suspend").n(b).n(0).s(gen_text(rng, w, "U", 2, false)),
        9 => Op::new("reset").n(b),
        10 => Op::new("finish").n(b).n(rng.below(5)).s(gen_text(rng, w, "f", 2, special)),
        11 => Op::new("finish_using_style").n(b),
        12 => Op::new("force_draw").n(b),
        _ => {
            if rng.chance(1, 2) {
                Op::new("iter_exhaust").n(b).n(rng.below(15)).n(rng.below(7))
            } else {
                Op::new("iter_partial").n(b).n(rng.below(15)).n(rng.below(8))
            }
        }
    }
}

impl Check for TermCheck {
    fn id(&self) -> &'static str {
        self.pid()
    }
    fn rule_text(&self) -> String {
        let common = "Every scenario is one seeded operation history executed against the real library on a simulated terminal (own grid + scrollback, deferred wrap) under a virtual clock, in lock-step with an abstract model; after every call the whole transcript (scrollback included) must equal [printed log lines, in order] + [optional static finished bars] + [each member's most recently submitted rendering in logical order], a call that painted nothing must leave the terminal untouched, forced calls must paint. Texts have line widths around k*W-1, k*W, k*W+1, empty and zero-width (SGR-only) lines, embedded newlines; templates are drawn from a model-renderable family (literals, msg, prefix, pos, len, line breaks). Non-trivial: >= 3 executed operations of which >= 2 painted a frame and the run stayed inside the property's scope. Distinct = distinct scenario hash.";
        match self.0 {
            Flavor::C01 => format!("C01 single bar: history of 1..25 (quick) / 1..60 (thorough) calls of tick/inc/set_position/set_message/set_prefix/set_style/set_length/println/suspend/reset/finish*/abandon*/finish_using_style/force_draw/iterator completion with clock gaps (0 ns bursts, around the refresh interval, hours), widths 1..200, optional refresh limiter; additionally the cursor must be left so that the next character lands in column 0 of the first row below the frame. One scenario in eight is a scheduled one (mode sched, shared with C03): threads print through println / inside suspend closures (with scheduling points and virtual sleeps inside) while other simulated threads and optionally a steady ticker update the same bar; at the end the terminal must show the printed lines followed by the current frame and nothing else. {common}"),
            Flavor::C02 => format!("C02 MultiProgress (sequential part): 1..6 bars, add/insert/insert_from_back/insert_before/insert_after/remove, bar updates, finish*/abandon*, drop of handles (clones), bar-level and mp-level println, clear, suspend, top alignment and bottom alignment. One scenario in four is a scheduled one (mode sched): 2..4 worker threads update their own bars (inc/set_message/finish/abandon, some own the last handle and drop it) while a structural thread prints, suspends (closure writes to the terminal), clears, switches the alignment, removes its own bar and adds/inserts a late bar (add/insert/insert_from_back/insert_before/insert_after) and an optional third party pokes the bar being removed, under a seeded random/sticky/PCT scheduler; every painted frame is recorded and must show for each bar a state it really had, not older than shown before and not from the future, each member once, in logical order, log lines above the region, and the last frame the final states; printed lines must all be there at the end. {common}"),
            Flavor::C03 => format!("C03 log lines: the C01/C02 generators biased to println (bar and mp level, empty, multi-line, wider than the terminal), suspend with printing closures, finish/drop in every order, remove, clear, and rate limited targets (1..255 Hz) with bursts at one instant so that ordinary draws are skipped while dropped bars wait to be reaped; only violations in which a printed line is missing, duplicated, reordered or overwritten are reported under C03. One scenario in five is a scheduled one (mode sched): one or two threads print (println, external output inside suspend with scheduling points and virtual sleeps inside the closure; bar level and MultiProgress level) while other simulated threads and optionally a steady ticker draw the same bars under a seeded scheduler; every line whose call returned must be on the terminal exactly once at every later flush and at the end, each thread's lines in emission order. {common}"),
            Flavor::C04 => format!("C04 finishing: every ProgressFinish variant through explicit calls, with_finish + drop of the last handle (clones dropped in any order), finish_using_style and iterator exhaustion, after histories that exhaust both rate limiters at the finishing instant; standalone and MultiProgress; the forced final frame must be painted and show the final state; visibly finished dropped bars stay until println/clear/suspend/remove. {common}"),
            Flavor::C16 => format!("C16 tabs: random order of with_tab_width/set_tab_width (0,1,2,4,8,13,33,70 and, one change in sixty, 65535/65536/100000), with_style/set_style (templates with literal tabs, escaped braces - also right behind a tab - and a custom key whose output contains tabs), with_message/set_message/with_prefix/set_prefix/finish_with_message/abandon_with_message/with_finish(WithMessage)+drop with 0..5 tabs each (the four builder calls in all 24 orders), ticks; additionally no string passed to the terminal may contain a TAB and message()/prefix() must return the text expanded with the current tab width. One scenario in ten is a scheduled one (mode sched): one thread sets messages and prefixes with tabs, another changes the tab width, a third draws, on clones of one bar under the seeded scheduler; afterwards message()/prefix() and the frame must be the last texts expanded with the last width. {common}"),
            Flavor::C19 => format!("C19 geometry: terminal sizes W,H in 1..8 (plus a few larger), MultiProgress with up to 12 bars of 1..3 lines and single bars, histories growing the set of bars past the terminal height and shrinking it again; when the bars need more rows than the terminal has, the region must be the leading lines (or leading whole bars) that fit, nothing of the region may scroll out of reach and later frames must leave no remnant; in one history in three the window gets another height between calls (taller: rows come back from the scrollback or blank rows are added; shorter: only when blank rows below the cursor can go) and the next frame must be cut for the height the terminal has then - omitted bars appear as soon as there is room. {common}"),
        }
    }
    fn assumptions(&self) -> Vec<String> {
        vec![
            "SimTerm's xterm semantics (deferred wrap, CUU/CUD clamped to the screen, EL 2) — cross-checked against the vt100 crate at every flush in 1 of 8 runs; a disagreement is a harness error".into(),
            "templates contain the custom key {obs} (observation channel: tells the oracle when a bar rendered); time-dependent keys, {bar}, width/alignment specifiers are excluded (C10–C13 are separate properties)".into(),
            "not generated: set_move_cursor(true), a terminal whose width changes within a history (a changing height is generated for C19 only), set_draw_target on members, re-entrant callbacks, double-width characters straddling the right margin, index-based inserts while dropped leading bars may still be counted by the implementation, suspend on a bar that was removed from its MultiProgress".into(),
            "a dropped, visibly finished bar may disappear after any println/clear/suspend/remove (most permissive reading of C02/C04)".into(),
        ]
    }
    fn budget(&self, tier: Tier) -> Budget {
        match tier {
            Tier::Quick => Budget { runs: 120_000, wall_s: 90 },
            Tier::Thorough => Budget { runs: 2_000_000, wall_s: 600 },
        }
    }
    fn corpus(&self) -> Vec<Scenario> {
        crate::stories::stories(self.pid())
    }
    fn gen(&self, rng: &mut Rng, tier: Tier, _index: u64) -> Scenario {
        let fl = self.0;
        if fl == Flavor::C02 && rng.chance(1, 4) {
            return crate::c02s::gen_sched(rng, tier);
        }
        if fl == Flavor::C03 && rng.chance(1, 5) {
            return crate::c03s::gen_sched(rng, tier, "C03");
        }
        if fl == Flavor::C16 && rng.chance(1, 10) {
            return crate::c16s::gen_sched(rng, tier);
        }
        if fl == Flavor::C01 && rng.chance(1, 2500) {
            // one line far beyond any 16-bit quantity (columns and rows are usize in the library;
            // a terminal reports u16 sizes)
            let mut sc = Scenario::new("C01", "single", rng.next_u64());
            sc.set("w", 100);
            sc.set("h", 1000);
            sc.set("hz", 0);
            let n = *rng.pick(&[65_535usize, 65_536, 70_000]);
            sc.threads = vec![vec![
                Op::new("new").n(9).n(0).n(1).n(10).n(0).n(8).s("{obs}{msg}").s("fin").s(""),
                Op::new("set_message").n(0).n(0).s("x".repeat(n)),
                Op::new("tick").n(0),
                Op::new("set_message").n(0).n(0).s("y"),
                Op::new("println").n(0).n(0).s("z"),
                Op::new("tick").n(0),
            ]];
            return sc;
        }
        if fl == Flavor::C01 && rng.chance(1, 8) {
            return crate::c03s::gen_sched(rng, tier, "C01");
        }
        let multi = match fl {
            Flavor::C01 => false,
            Flavor::C16 => rng.chance(1, 4),
            Flavor::C02 => true,
            Flavor::C03 | Flavor::C04 => rng.chance(2, 3),
            Flavor::C19 => rng.chance(3, 4),
        };
        let mut sc = Scenario::new(self.pid(), if multi { "multi" } else { "single" }, rng.next_u64());
        let small = fl == Flavor::C19;
        let small_w = small && rng.chance(9, 10);
        let w = pick_w(rng, small_w);
        sc.set("w", w);
        let h = match fl {
            Flavor::C19 => {
                if rng.chance(9, 10) {
                    rng.range(1, 8)
                } else {
                    *rng.pick(&[4, 30])
                }
            }
            // (C03: now and then so low that frames are cut: printed lines must survive that too)
            Flavor::C03 => *rng.pick(&[60, 60, 200, 24, 12, 3, 2]),
            _ => *rng.pick(&[60, 60, 200, 24, 12]),
        };
        sc.set("h", h);
        sc.set("multi", multi as u64);
        let hz = match fl {
            Flavor::C03 | Flavor::C04 => *rng.pick(&[0, 1, 3, 20, 255]),
            _ => *rng.pick(&[0, 0, 20]),
        };
        sc.set("hz", hz);
        let force_bottom = std::env::var_os("VERIF_FORCE_BOTTOM").is_some();
        sc.set("bottom", (multi && fl != Flavor::C16 && (force_bottom || rng.chance(1, 3))) as u64);
        sc.set("xcheck", rng.chance(1, 8) as u64);
        // a terminal that holds back what the library writes until the library flushes
        sc.set("buffered", rng.chance(1, 3) as u64);
        // a small share of the runs draws through a real console::Term on a kernel pty
        if fl != Flavor::C16 && rng.chance(1, if tier == Tier::Quick { 40 } else { 25 }) {
            sc.set("pty", 1);
            sc.set("xcheck", 0);
            sc.mode = format!("{}+pty", sc.mode);
        }
        // C19: in one history in three the window gets another height now and then (same width)
        let resizing = fl == Flavor::C19 && sc.c("pty") == 0 && rng.chance(1, 3);
        if resizing {
            sc.set("xcheck", 0);
        }
        let special = rng.chance(1, 2);
        let w = w as usize;
        let max_ops = match tier {
            Tier::Quick => 25,
            Tier::Thorough => 60,
        };
        let n = rng.range(1, max_ops);
        let mut ops: Vec<Op> = vec![];
        let mut nbars: usize = 0;
        if !multi {
            ops.push(if fl == Flavor::C16 { new_bar_op_tabs(rng, 9, 0) } else { new_bar_op(rng, 9, 0, 0, w, special) });
            nbars = 1;
        }
        if multi && hz > 0 && fl != Flavor::C16 && rng.chance(1, 12) {
            // prelude: what a member has stored and what is on the screen drift apart while the
            // limiter swallows the frames, then the member leaves (remove / drop) - with some of
            // the steps left out at random
            let t0 = "{obs}{msg}".to_string();
            ops.push(Op::new("add").n(0).n(0).n(1).n(10).n(rng.below(5)).n(8).s(t0).s("fin").s("").s("xx"));
            ops.push(new_bar_op(rng, 0, 0, 1, w, special));
            ops.push(new_bar_op(rng, 0, 0, 2, w, special));
            nbars = 3;
            for b in 0..3 {
                ops.push(Op::new("tick").n(b));
            }
            if rng.chance(3, 4) {
                ops.push(Op::new("finish").n(1).n(rng.below(5)).s(""));
            }
            ops.push(Op::new("burn").n(2).n(rng.range(22, 40)));
            if rng.chance(3, 4) {
                ops.push(Op::new("set_message").n(0).n(0).s(if rng.chance(2, 3) { "" } else { "a\nb" }));
            }
            if rng.chance(3, 4) {
                ops.push(Op::new(if rng.chance(3, 4) { "mp_remove" } else { "drop_all" }).n(0));
            }
            if rng.chance(3, 4) {
                ops.push(Op::new("drop_all").n(1));
            }
            ops.push(Op::new("tick").n(2));
        }
        if multi && ops.is_empty() && sc.c("bottom") == 1 && rng.chance(1, 6) {
            // prelude for bottom alignment: the region shrinks (blank padding rows take the place
            // of the lines that went away), lines are printed, the bar that shrank leaves - with
            // some of the steps left out at random
            let two = format!("{{obs}}P0a{{msg}}\nP0b{{pos}}");
            ops.push(Op::new("add").n(0).n(0).n(1).n(10).n(rng.below(5)).n(8).s(two).s("fin").s(""));
            // (the second bar is there from the start, or only joins after the first one left)
            let late = rng.chance(1, 2);
            if !late {
                ops.push(new_bar_op(rng, 0, 0, 1, w, special));
            }
            nbars = 2;
            ops.push(Op::new("tick").n(0));
            if !late {
                ops.push(Op::new("tick").n(1));
            }
            if rng.chance(3, 4) {
                ops.push(Op::new("finish").n(0).n(*rng.pick(&[2, 2, 0, 3])).s(""));
            }
            if rng.chance(3, 4) {
                ops.push(Op::new("mp_println").s(gen_text(rng, w, "M", 2, special)));
            }
            if rng.chance(3, 4) {
                ops.push(Op::new("drop_all").n(0));
            }
            if late {
                ops.push(new_bar_op(rng, 0, 0, 1, w, special));
            }
            if late || rng.chance(3, 4) {
                ops.push(Op::new("tick").n(1));
            }
            if rng.chance(3, 4) {
                ops.push(Op::new("mp_println").s(gen_text(rng, w, "N", 2, special)));
            }
        }
        let burst = matches!(fl, Flavor::C03 | Flavor::C04) && rng.chance(1, 2);
        // exhaust the refresh limiter early (its burst allowance is 20 frames): the interesting
        // histories are the ones in which ordinary draws are skipped afterwards
        let burn_at = if hz > 0 && rng.chance(1, 2) { Some(rng.below(n.min(6))) } else { None };
        let mut quiet_until = 0;
        for step in 0..n {
            if burn_at == Some(step) && nbars > 0 {
                ops.push(Op::new("burn").n(rng.below(nbars as u64)).n(rng.range(20, 45)));
                // stay in the exhausted state for a while: no clock gaps
                quiet_until = step + rng.range(4, 14);
            }
            // clock gap
            if step < quiet_until {
            } else if !burst && rng.chance(1, 3) {
                ops.push(Op::new("advance").n(gen_gap(rng, hz)));
            } else if burst && rng.chance(1, 10) {
                ops.push(Op::new("advance").n(gen_gap(rng, hz)));
            }
            if resizing && rng.chance(1, 8) {
                ops.push(Op::new("resize_h").n(if rng.chance(1, 6) { 30 } else { rng.range(1, 10) }));
            }
            let b = rng.below(nbars.max(1) as u64);
            if multi {
                let max_bars = if fl == Flavor::C19 { 12 } else { 6 };
                let structural = rng.below(100);
                if nbars == 0 || (structural < 14 && nbars < max_bars) {
                    let kind = rng.weighted(&[5, 2, 2, 2, 2]) as u64;
                    let arg = rng.below(5);
                    ops.push(if fl == Flavor::C16 { new_bar_op_tabs(rng, 0, nbars) } else { new_bar_op(rng, kind, arg, nbars, w, special) });
                    nbars += 1;
                    continue;
                }
                match structural {
                    14..=19 => {
                        ops.push(Op::new(if rng.chance(1, 2) { "drop_all" } else { "drop" }).n(b));
                        continue;
                    }
                    20..=22 => {
                        ops.push(Op::new("mp_remove").n(b));
                        continue;
                    }
                    23..=24 => {
                        ops.push(Op::new("clone").n(b));
                        continue;
                    }
                    25..=32 => {
                        let weight = if fl == Flavor::C03 { 1 } else { 3 };
                        if rng.chance(1, weight) {
                            ops.push(Op::new("mp_println").s(gen_text(rng, w, "M", 3, special)));
                            continue;
                        }
                    }
                    33..=34 => {
                        ops.push(Op::new("mp_clear"));
                        continue;
                    }
                    35..=36 => {
                        ops.push(Op::new("mp_suspend").s(gen_text(rng, w, "V", 2, false)));
                        continue;
                    }
                    37 => {
                        ops.push(Op::new("mp_align").n(rng.below(2)));
                        continue;
                    }
                    _ => {}
                }
            } else if rng.chance(1, 40) {
                ops.push(Op::new("drop_all").n(0));
                continue;
            } else if rng.chance(1, 30) {
                ops.push(Op::new(if rng.chance(1, 2) { "clone" } else { "drop" }).n(0));
                continue;
            }
            ops.push(bar_op(rng, b, w, special, fl));
        }
        // C04: often end by dropping everything, in random order
        if matches!(fl, Flavor::C04 | Flavor::C03 | Flavor::C02 | Flavor::C16) && rng.chance(1, 2) {
            let mut order: Vec<u64> = (0..nbars as u64).collect();
            for i in (1..order.len()).rev() {
                order.swap(i, rng.usize_below(i + 1));
            }
            for b in order {
                ops.push(Op::new("drop_all").n(b));
            }
            if multi && rng.chance(1, 2) {
                ops.push(Op::new("drop_mp"));
            }
        }
        sc.threads = vec![ops];
        sc
    }
    fn exec(&self, sc: &Scenario) -> Report {
        if sc.mode == "sched" {
            return match self.0 {
                Flavor::C03 => crate::c03s::exec_sched(sc, "C03"),
                Flavor::C01 => crate::c03s::exec_sched(sc, "C01"),
                Flavor::C16 => crate::c16s::exec_sched(sc),
                _ => crate::c02s::exec_sched(sc),
            };
        }
        let mut r = exec_stage(sc, self.pid());
        // C03 reports only damage to printed lines; everything else belongs to C01/C02/C04/C19
        if self.0 == Flavor::C03 {
            if let Some((rule, _)) = &r.violation {
                if !(rule.ends_with(".log_lines") || rule.ends_with(".no_panic") || rule == "deadlock") {
                    r.probe("non_log_violation_ignored_by_C03");
                    r.violation = None;
                }
            }
        }
        r
    }
    fn shrink_cfg(&self) -> Vec<(&'static str, u64)> {
        vec![("hz", 0), ("bottom", 0), ("xcheck", 0), ("buffered", 0), ("w", 1), ("h", 1)]
    }
    fn known(&self, rule: &str, sc: &Scenario, detail: &str) -> Option<&'static str> {
        crate::stories::known(self.pid(), rule, sc, detail)
    }
}
