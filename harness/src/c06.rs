//! C06 — hidden or non-terminal targets are silent and state-equivalent.
//!
//! The same generated history is applied in lock-step to a hidden bar and to a visible twin on
//! its own simulated terminal, both reading the same virtual clock. One way of being hidden per
//! run: hidden target, set_draw_target(hidden()) after having been visible, a real console::Term
//! over a file (not a tty), member of a MultiProgress built on either, removed from a visible
//! MultiProgress.

use std::time::Duration;

use console::Term;
use indicatif::{MultiProgress, ProgressBar, ProgressDrawTarget, ProgressStyle, TermLike};
use verif_simrt::rng::Rng;
use verif_simrt::{sched, World};

use crate::c07::{finish_report, sched_config};
use crate::common::*;
use crate::engine::{verif_dir, Budget, Check, Tier};
use crate::scenario::{Op, Report, Scenario};
use crate::simterm::SimTerm;

pub struct C06;

const WAYS: [&str; 12] = [
    "hidden_target",
    "set_hidden_later",
    "non_tty_term",
    "mp_hidden",
    "mp_non_tty",
    "removed_from_mp",
    "hidden_ctor",
    "moved_to_hidden_mp",
    "hidden_while_mp_hidden",
    "removed_while_mp_hidden",
    "stderr_of_iterator_adaptor",
    "mp_hidden_later",
];

fn style() -> ProgressStyle {
    ProgressStyle::with_template("{prefix}{msg} {pos}/{len} {spinner}").unwrap()
}

fn apply(pb: &ProgressBar, op: &Op) -> Result<(), String> {
    let a = op.n0();
    match op.k.as_str() {
        "tick" => call(|| pb.tick()),
        "inc" => call(|| pb.inc(a)),
        "dec" => call(|| pb.dec(a)),
        "set_position" => call(|| pb.set_position(a)),
        "set_message" => call(|| pb.set_message(op.s0().to_string())),
        "set_prefix" => call(|| pb.set_prefix(op.s0().to_string())),
        "set_length" => call(|| pb.set_length(a)),
        "inc_length" => call(|| pb.inc_length(a)),
        "dec_length" => call(|| pb.dec_length(a)),
        "unset_length" => call(|| pb.unset_length()),
        "set_style" => call(|| pb.set_style(style())),
        "set_tab_width" => call(|| pb.set_tab_width(a as usize)),
        "println" => call(|| pb.println(op.s0())),
        "suspend" => call(|| pb.suspend(|| ())),
        "reset" => call(|| pb.reset()),
        "reset_eta" => call(|| pb.reset_eta()),
        "reset_elapsed" => call(|| pb.reset_elapsed()),
        "finish" => call(|| apply_finish(pb, a, op.s0())),
        "finish_using_style" => call(|| pb.finish_using_style()),
        "force_draw" => call(|| pb.force_draw()),
        "update" => call(|| pb.update(|s| s.set_pos(a))),
        "enable_steady_tick" => call(|| pb.enable_steady_tick(Duration::from_millis(a.max(1)))),
        "disable_steady_tick" => call(|| pb.disable_steady_tick()),
        "wrap_iter" => call(|| {
            for _ in pb.wrap_iter(0..(a as usize)) {}
        }),
        // builders reach the shared state through a clone of the handle
        "with_message" => call(|| drop(pb.clone().with_message(op.s0().to_string()))),
        "with_prefix" => call(|| drop(pb.clone().with_prefix(op.s0().to_string()))),
        "with_position" => call(|| drop(pb.clone().with_position(a))),
        "with_tab_width" => call(|| drop(pb.clone().with_tab_width(a as usize))),
        "clone_drop" => call(|| {
            let c = pb.clone();
            let w = c.downgrade();
            drop(c);
            if let Some(u) = w.upgrade() {
                u.inc(1);
            }
        }),
        "wrap_write" => call(|| {
            use std::io::Write;
            let mut w = pb.wrap_write(Vec::new());
            let _ = w.write_all(&vec![7u8; (a % 300) as usize]);
            let _ = w.flush();
        }),
        "wrap_read" => call(|| {
            use std::io::Read;
            let data = vec![1u8; (a % 300) as usize];
            let mut out = Vec::new();
            let _ = pb.wrap_read(&data[..]).read_to_end(&mut out);
        }),
        "getters" => call(|| {
            let _ = (pb.eta(), pb.per_sec(), pb.duration(), pb.elapsed(), pb.is_hidden());
        }),
        _ => Ok(()),
    }
}

type Snap = (u64, Option<u64>, String, String, bool);
fn snap(pb: &ProgressBar) -> Snap {
    (pb.position(), pb.length(), pb.message(), pb.prefix(), pb.is_finished())
}

fn exec(sc: &Scenario) -> Report {
    let sc2 = sc.clone();
    let mut cfg = sched_config(sc);
    cfg.atomics_yield = false;
    let (res, out) = World::run(cfg, move || {
        let sc = sc2;
        let mut r = Report::default();
        let way = WAYS[(sc.c("way") as usize) % WAYS.len()];
        r.probe(&format!("way_{way}"));
        let len = if sc.c("len_known") == 1 { Some(sc.c("len0")) } else { None };
        // visible twin
        let vterm = SimTerm::new(40, 20);
        let vis = ProgressBar::with_draw_target(len, ProgressDrawTarget::term_like(Box::new(vterm.clone())));
        let vis = if sc.c("on_finish") == 5 { vis } else { vis.with_finish(finish_kind(sc.c("on_finish"), "fin")) };
        vis.set_style(style());
        // the hidden one
        let spy = SimTerm::new(40, 20); // the terminal a hidden bar must never touch
        let mut file_path: Option<std::path::PathBuf> = None;
        let mut non_tty = || -> Option<ProgressDrawTarget> {
            let dir = verif_dir().join("target").join("tmp-c06");
            std::fs::create_dir_all(&dir).ok()?;
            let p = dir.join(format!("term-{}-{:x}.out", std::process::id(), sc.seed));
            let f = std::fs::OpenOptions::new().create(true).read(true).write(true).truncate(true).open(&p).ok()?;
            let f2 = f.try_clone().ok()?;
            file_path = Some(p);
            Some(ProgressDrawTarget::term(Term::read_write_pair(f2, f), 20))
        };
        let mut mp_keep: Option<MultiProgress> = None;
        let mut sibling: Option<ProgressBar> = None;
        let hid: ProgressBar = match way {
            "hidden_target" => ProgressBar::with_draw_target(len, ProgressDrawTarget::hidden()),
            "hidden_ctor" => {
                let pb = ProgressBar::hidden();
                if let Some(l) = len {
                    pb.set_length(l);
                    vis.set_length(l);
                }
                pb
            }
            "set_hidden_later" => ProgressBar::with_draw_target(len, ProgressDrawTarget::term_like(Box::new(spy.clone()))),
            "stderr_of_iterator_adaptor" => {
                // the bar that `.progress_count(n)` creates for itself draws to stderr, which is
                // not a terminal where this harness runs (checked): hidden, with the given length
                if console::Term::stderr().is_term() {
                    r.inconclusive = true;
                    return r;
                }
                use indicatif::ProgressIterator;
                let l = len.unwrap_or(0);
                vis.set_length(l);
                (0..0u32).progress_count(l).progress
            }
            "non_tty_term" => match non_tty() {
                Some(t) => ProgressBar::with_draw_target(len, t),
                None => {
                    r.harness_error = Some("cannot create the scratch file for the non-tty Term".into());
                    return r;
                }
            },
            "mp_hidden" => {
                let mp = MultiProgress::with_draw_target(ProgressDrawTarget::hidden());
                let pb = mp.add(ProgressBar::with_draw_target(len, ProgressDrawTarget::term_like(Box::new(spy.clone()))));
                mp_keep = Some(mp);
                pb
            }
            "mp_non_tty" => match non_tty() {
                Some(t) => {
                    let mp = MultiProgress::with_draw_target(t);
                    let pb = mp.add(ProgressBar::with_draw_target(len, ProgressDrawTarget::hidden()));
                    mp_keep = Some(mp);
                    pb
                }
                None => {
                    r.harness_error = Some("cannot create the scratch file for the non-tty Term".into());
                    return r;
                }
            },
            "hidden_while_mp_hidden" | "removed_while_mp_hidden" => {
                // member of a hidden MultiProgress that is hidden explicitly, too (or removed from
                // it); the MultiProgress gets a visible target later
                let mp = MultiProgress::with_draw_target(ProgressDrawTarget::hidden());
                let pb = mp.add(ProgressBar::with_draw_target(len, ProgressDrawTarget::term_like(Box::new(spy.clone()))));
                mp_keep = Some(mp);
                pb
            }
            _ => {
                // removed_from_mp / moved_to_hidden_mp: a visible MultiProgress on the spy terminal with a sibling
                let mp = MultiProgress::with_draw_target(ProgressDrawTarget::term_like(Box::new(spy.clone())));
                let sib = mp.add(ProgressBar::with_draw_target(Some(10), ProgressDrawTarget::hidden()));
                sib.set_style(style());
                let pb = mp.add(ProgressBar::with_draw_target(len, ProgressDrawTarget::hidden()));
                sib.tick();
                sibling = Some(sib);
                mp_keep = Some(mp);
                pb
            }
        };
        // (on_finish 5: the bars keep the finish behaviour their constructor gave them)
        let hid = if sc.c("on_finish") == 5 { hid } else { hid.with_finish(finish_kind(sc.c("on_finish"), "fin")) };
        hid.set_style(style());
        let ops = sc.threads.first().cloned().unwrap_or_default();
        let switch_at = (sc.c("switch_at") as usize).min(ops.len());
        let mut silent_from: Option<usize> = match way {
            "mp_hidden" | "hidden_while_mp_hidden" | "removed_while_mp_hidden" => Some(0),
            _ => None,
        };
        let mut mp_hidden2: Option<MultiProgress> = None;
        for (i, op) in ops.iter().enumerate() {
            let at = format!("op#{i} {}", op.short());
            if i == switch_at {
                match way {
                    "set_hidden_later" => {
                        hid.set_draw_target(ProgressDrawTarget::hidden());
                        silent_from = Some(i);
                    }
                    "removed_from_mp" => {
                        if let Some(mp) = &mp_keep {
                            mp.remove(&hid);
                        }
                        silent_from = Some(i);
                    }
                    "moved_to_hidden_mp" => {
                        // handed over from the visible MultiProgress to a hidden one
                        let mp2 = MultiProgress::with_draw_target(ProgressDrawTarget::hidden());
                        let _ = if sc.c("switch_at") % 2 == 0 { mp2.add(hid.clone()) } else { mp2.insert(0, hid.clone()) };
                        mp_hidden2 = Some(mp2);
                        silent_from = Some(i);
                    }
                    "mp_hidden_later" => {
                        // the (visible) MultiProgress itself is hidden; what its member showed
                        // last says STALE, and the member is asked to redraw while hidden
                        let _ = call(|| {
                            hid.set_message("STALE");
                            vis.set_message("STALE");
                            hid.force_draw();
                            vis.force_draw();
                            // (in half of the runs the sibling above was finished visibly before)
                            if sc.c("switch_at") % 2 == 1 {
                                if let Some(s) = &sibling {
                                    s.finish();
                                }
                            }
                            if let Some(mp) = &mp_keep {
                                mp.set_draw_target(ProgressDrawTarget::hidden());
                            }
                        });
                        // ... and its last handle goes away right after the MultiProgress was hidden
                        if sc.c("switch_at") % 2 == 1 && sc.seed % 3 != 0 {
                            let sb = sibling.take();
                            let before = spy.n_all();
                            if let Err(p) = call(|| drop(sb)) {
                                r.violate("C06.no_panic", format!("op#{i}: dropping a finished member of a MultiProgress that was hidden meanwhile panicked: {p}"));
                                break;
                            }
                            if spy.n_all() != before {
                                r.violate("C06.silence", format!("op#{i}: dropping a member of a hidden MultiProgress made {} terminal calls", spy.n_all() - before));
                                break;
                            }
                            r.probe("finished_sibling_dropped_after_hiding");
                        }
                        let _ = call(|| {
                            hid.set_message("fresh");
                            vis.set_message("fresh");
                        });
                        silent_from = Some(i);
                    }
                    "removed_while_mp_hidden" => {
                        if let Some(mp) = &mp_keep {
                            mp.remove(&hid);
                            mp.set_draw_target(ProgressDrawTarget::term_like(Box::new(spy.clone())));
                        }
                    }
                    "hidden_while_mp_hidden" => {
                        hid.set_draw_target(ProgressDrawTarget::hidden());
                        if let Some(mp) = &mp_keep {
                            mp.set_draw_target(ProgressDrawTarget::term_like(Box::new(spy.clone())));
                        }
                    }
                    _ => {}
                }
            }
            if op.k == "advance" {
                sched::advance_quiet(op.n0());
                continue;
            }
            if op.k == "sleep" {
                sched::sleep(op.n0());
                continue;
            }
            if op.k == "mp_call" {
                // calls on the hidden MultiProgress itself are silent, too (the file behind the
                // non-tty Term is looked at when the run ends)
                if matches!(way, "mp_hidden" | "mp_non_tty") || (way == "mp_hidden_later" && silent_from.is_some()) {
                    if let Some(mp) = &mp_keep {
                        let spy_before = spy.n_all();
                        let res = call(|| match op.n0() % 6 {
                            0 => {
                                let _ = mp.println("mp line");
                            }
                            1 => {
                                let _ = mp.clear();
                            }
                            2 => mp.suspend(|| ()),
                            3 => mp.set_alignment(if op.n0() % 12 < 6 { indicatif::MultiProgressAlignment::Bottom } else { indicatif::MultiProgressAlignment::Top }),
                            4 => {
                                let extra = mp.add(ProgressBar::with_draw_target(Some(5), ProgressDrawTarget::term_like(Box::new(spy.clone()))));
                                extra.set_style(style());
                                extra.tick();
                                extra.finish();
                            }
                            _ => {
                                let _ = mp.is_hidden();
                            }
                        });
                        if let Err(p) = res {
                            r.violate("C06.no_panic", format!("{at} on the hidden MultiProgress panicked: {p}"));
                            break;
                        }
                        if spy.n_all() != spy_before {
                            r.violate("C06.silence", format!("{at}: the MultiProgress is hidden ({way}) but the call made {} terminal calls/queries", spy.n_all() - spy_before));
                            break;
                        }
                        r.probe("calls_on_hidden_multiprogress");
                    }
                }
                continue;
            }
            if op.k == "sibling_tick" {
                if let Some(s) = &sibling {
                    s.tick();
                    s.inc(1);
                }
                continue;
            }
            let spy_before = spy.n_all();
            let rh = apply(&hid, op);
            let spy_after = spy.n_all();
            let rv = apply(&vis, op);
            if let Err(p) = &rh {
                r.violate("C06.no_panic", format!("{at} on the hidden bar panicked: {p}"));
                break;
            }
            if let Err(p) = &rv {
                r.violate("C06.no_panic", format!("{at} on the visible twin panicked: {p}"));
                break;
            }
            if silent_from.is_some() && spy_after != spy_before && op.k != "enable_steady_tick" {
                r.violate(
                    "C06.silence",
                    format!("{at}: the bar is hidden ({way}) but the call made {} terminal calls/queries", spy_after - spy_before),
                );
                break;
            }
            let (sh, sv) = match call(|| (snap(&hid), snap(&vis))) {
                Ok(x) => x,
                Err(p) => {
                    r.violate("C06.no_panic", format!("getters after {at} panicked: {p}"));
                    break;
                }
            };
            if sh != sv {
                r.violate(
                    "C06.state_equivalence",
                    format!("after {at}: hidden bar ({way}) (position, length, message, prefix, finished) = {sh:?}, visible twin = {sv:?}"),
                );
                break;
            }
        }
        // a ticker on a hidden bar must stay silent too: let time pass
        if silent_from.is_some() && r.violation.is_none() {
            let before = spy.n_all();
            sched::sleep(50_000_000);
            let after = spy.n_all();
            if after != before && sibling.is_none() {
                r.violate("C06.silence", format!("while idle a hidden bar ({way}) made {} terminal calls (steady ticker?)", after - before));
            }
        }
        // what a hidden MultiProgress was asked to print is gone for good: when it gets a terminal
        // later, nothing of it turns up there
        if way == "mp_hidden" && r.violation.is_none() {
            if let Some(mp) = &mp_keep {
                let late = call(|| {
                    let sib = mp.add(ProgressBar::with_draw_target(Some(3), ProgressDrawTarget::hidden()));
                    sib.set_style(style());
                    let _ = hid.is_finished();
                    hid.disable_steady_tick();
                    let _ = mp.remove(&hid);
                    mp.set_draw_target(ProgressDrawTarget::term_like(Box::new(spy.clone())));
                    sib.tick();
                    sib
                });
                match late {
                    Err(p) => r.violate("C06.no_panic", format!("giving the hidden MultiProgress a terminal panicked: {p}")),
                    Ok(sib) => {
                        let rows = spy.transcript();
                        if rows.iter().any(|row| row.contains("a log line")) {
                            r.violate(
                                "C06.silence",
                                format!("lines printed through a member while the MultiProgress was hidden reached the terminal it got later: {rows:?}"),
                            );
                        }
                        r.probe("hidden_mp_made_visible_at_the_end");
                        drop(sib);
                    }
                }
            }
        }
        // a member that was asked to redraw while its MultiProgress was hidden does not come back
        // with the frame it showed before, when the MultiProgress gets a terminal again
        if way == "mp_hidden_later" && switch_at < ops.len() && r.violation.is_none() {
            if let Some(mp) = &mp_keep {
                let late_term = SimTerm::new(80, 30);
                let lt = late_term.clone();
                let late = call(|| {
                    hid.disable_steady_tick();
                    mp.set_draw_target(ProgressDrawTarget::term_like(Box::new(lt)));
                    if let Some(s) = &sibling {
                        s.tick();
                    }
                });
                match late {
                    Err(p) => r.violate("C06.no_panic", format!("giving the MultiProgress a terminal again panicked: {p}")),
                    Ok(()) => {
                        let rows = late_term.transcript();
                        if rows.iter().any(|row| row.contains("STALE")) {
                            r.violate(
                                "C06.state_equivalence",
                                format!("a member drew (message \"fresh\", then the history) while its MultiProgress was hidden; when the MultiProgress got a terminal again the frame it had shown before came back: {rows:?}"),
                            );
                        }
                        r.probe("mp_hidden_then_visible_again");
                    }
                }
            }
        }
        r.probe_n("visible_twin_frames", vterm.flushes());
        r.nontrivial = ops.len() >= 3 && vterm.flushes() >= 1;
        let _ = vterm.width();
        // (after a reported panic the locks may be poisoned: the teardown must not turn the
        // violation into a harness error)
        let td = call(|| {
            drop(hid);
            drop(vis);
            drop(sibling);
            drop(mp_hidden2);
            drop(mp_keep);
        });
        if let Err(p) = td {
            if r.violation.is_none() {
                r.violate("C06.no_panic", format!("dropping the bars panicked: {p}"));
            }
        }
        if let Some(p) = file_path {
            let len = std::fs::metadata(&p).map(|m| m.len()).unwrap_or(0);
            let _ = std::fs::remove_file(&p);
            if len != 0 {
                r.violate("C06.silence", format!("{len} bytes were written to a Term that is not a tty ({way})"));
            }
        }
        r
    });
    finish_report(res, out)
}

impl Check for C06 {
    fn id(&self) -> &'static str {
        "C06"
    }
    fn rule_text(&self) -> String {
        "One way of being hidden per run (ProgressDrawTarget::hidden(), ProgressBar::hidden(), set_draw_target(hidden()) after having been visible, a real console::Term over a regular file = not a tty, member of a MultiProgress built on a hidden target or on the non-tty Term, bar removed from a visible MultiProgress with a live sibling, bar handed over from a visible MultiProgress to a hidden one, member of a hidden MultiProgress that is also hidden explicitly, or removed from it, before the MultiProgress gets a visible target; member of a visible MultiProgress that is hidden later - and gets a terminal again at the end: a member that redrew while hidden does not come back with the frame it showed before; the stderr bar an iterator adaptor creates for itself). A history of 3..30 calls (tick/inc/dec/set_position/set_message/set_prefix/length ops/set_style/set_tab_width/println/suspend/reset*/finish*/abandon*/finish_using_style/force_draw/update/enable+disable_steady_tick/wrap_iter/wrap_read/wrap_write/the with_message, with_prefix, with_position, with_tab_width builders through a clone/clone + downgrade + upgrade/getters; on a hidden MultiProgress also its own println, clear, suspend, set_alignment, add of another bar, which must be silent as well; clock gaps and simulated sleeps) is applied in lock-step to the hidden bar and to a visible twin on its own simulated terminal, same virtual clock. Oracle: after every call position/length/message/prefix/is_finished are equal; a spy terminal attributes every call and query to the API call in progress and must see none from the hidden bar (also while a steady ticker runs); the file behind the non-tty Term stays empty; no call panics. Non-trivial: >= 3 calls and the visible twin painted at least one frame. Distinct = distinct scenario hash.".into()
    }
    fn assumptions(&self) -> Vec<String> {
        vec![
            "the non-tty Term is a real console::Term over a scratch file under /verif/target/tmp-c06 (removed after the run); isatty() of a regular file is false".into(),
            "elapsed/eta/per_sec are not compared (not listed by the statement)".into(),
        ]
    }
    fn budget(&self, tier: Tier) -> Budget {
        match tier {
            Tier::Quick => Budget { runs: 100_000, wall_s: 90 },
            Tier::Thorough => Budget { runs: 1_000_000, wall_s: 600 },
        }
    }
    fn gen(&self, rng: &mut Rng, tier: Tier, _index: u64) -> Scenario {
        let mut sc = Scenario::new("C06", "twin", rng.next_u64());
        // the file-backed ways cost syscalls: keep them at a smaller share
        sc.set("way", rng.weighted(&[5, 5, 1, 4, 1, 6, 2, 4, 4, 4, 3, 4]) as u64);
        sc.set("len_known", rng.chance(3, 4) as u64);
        sc.set("len0", boundary_u64(rng));
        sc.set("on_finish", rng.below(6));
        sc.set("strategy", 0);
        let n = rng.range(3, if tier == Tier::Quick { 20 } else { 30 });
        sc.set("switch_at", rng.below(n / 2 + 1));
        let mut ops = vec![];
        let with_ticker = rng.chance(1, 5);
        for _ in 0..n {
            let a = if rng.chance(1, 3) { boundary_u64(rng) } else { rng.below(50) };
            ops.push(match rng.weighted(&[8, 8, 3, 5, 6, 3, 4, 2, 2, 1, 1, 1, 4, 2, 1, 1, 1, 5, 2, 2, 3, if with_ticker { 3 } else { 0 }, if with_ticker { 2 } else { 0 }, 2, 2, 6, if with_ticker { 3 } else { 0 }, 3, 1, 1, 1, 1, 2, 2, 2, 3]) {
                0 => Op::new("tick"),
                1 => Op::new("inc").n(a),
                2 => Op::new("dec").n(a),
                3 => Op::new("set_position").n(a),
                4 => Op::new("set_message").s(format!("m{}\t{}", rng.below(100), if rng.chance(1, 4) { "\nline2" } else { "" })),
                5 => Op::new("set_prefix").s(format!("p{}", rng.below(100))),
                6 => Op::new("set_length").n(a),
                7 => Op::new("inc_length").n(a),
                8 => Op::new("dec_length").n(a),
                9 => Op::new("unset_length"),
                10 => Op::new("set_style"),
                11 => Op::new("set_tab_width").n(rng.below(9)),
                12 => Op::new("println").s("a log line"),
                13 => Op::new("suspend"),
                14 => Op::new("reset"),
                15 => Op::new("reset_eta"),
                16 => Op::new("reset_elapsed"),
                17 => Op::new("finish").n(rng.below(5)).s("done\t!"),
                18 => Op::new("finish_using_style"),
                19 => Op::new("force_draw"),
                20 => Op::new("update").n(a),
                21 => Op::new("enable_steady_tick").n(*rng.pick(&[1, 7, 1000])),
                22 => Op::new("disable_steady_tick"),
                23 => Op::new("wrap_iter").n(rng.below(20)),
                24 => Op::new("getters"),
                25 => Op::new("advance").n(*rng.pick(&[0, 1, 999_999, 1_000_000, 50_000_000, 3_000_000_000])),
                26 => Op::new("sleep").n(*rng.pick(&[2_000_000, 30_000_000])),
                27 => Op::new("sibling_tick"),
                28 => Op::new("with_message").s(format!("wm{}\t", rng.below(100))),
                29 => Op::new("with_prefix").s(format!("wp{}", rng.below(100))),
                30 => Op::new("with_position").n(a),
                31 => Op::new("with_tab_width").n(rng.below(9)),
                32 => Op::new("clone_drop"),
                33 => Op::new("wrap_write").n(rng.below(300)),
                34 => Op::new("wrap_read").n(rng.below(300)),
                _ => Op::new("mp_call").n(rng.below(12)),
            });
        }
        sc.threads = vec![ops];
        sc
    }
    fn exec(&self, sc: &Scenario) -> Report {
        exec(sc)
    }
    fn shrink_cfg(&self) -> Vec<(&'static str, u64)> {
        vec![("switch_at", 0), ("len0", 0)]
    }
}
