//! C11 — placeholder values reflect the bar state at draw time.
//!
//! After a random history the virtual clock is frozen; for every documented key a template
//! `<{key}>` is set, a forced draw is captured from the simulated terminal, and the rendered
//! text is compared with the getter pushed through the public formatter named in the docs.
//! The formatters themselves are trusted here (C15 is a different property); what is decided is
//! the wiring key -> state -> formatter at one instant, across histories.

use std::sync::{Arc, Mutex as StdMutex};

use indicatif::{
    BinaryBytes, DecimalBytes, FormattedDuration, HumanBytes, HumanCount, HumanDuration, HumanFloatCount, ProgressBar, ProgressDrawTarget,
    ProgressStyle,
};
use verif_simrt::rng::Rng;
use verif_simrt::{sched, Config, World};

use crate::c07::finish_report;
use crate::common::*;
use crate::engine::{Budget, Check, Tier};
use crate::scenario::{Op, Report, Scenario};
use crate::simterm::SimTerm;
use crate::stage::{Obs, ObsShared};

pub struct C11;

const KEYS: [&str; 25] = [
    "spinner",
    "prefix",
    "msg",
    "pos",
    "human_pos",
    "len",
    "human_len",
    "percent",
    "percent_precise",
    "bytes",
    "total_bytes",
    "decimal_bytes",
    "decimal_total_bytes",
    "binary_bytes",
    "binary_total_bytes",
    "elapsed_precise",
    "elapsed",
    "per_sec",
    "bytes_per_sec",
    "decimal_bytes_per_sec",
    "binary_bytes_per_sec",
    "eta_precise",
    "eta",
    "duration_precise",
    "duration",
];

fn mk_style(key: &str, obs: &Arc<StdMutex<ObsShared>>, aux: &Arc<StdMutex<ObsShared>>, two_line: bool, tick_kind: u64) -> ProgressStyle {
    mk_style_gen(&format!("<{{{key}}}>"), obs, aux, two_line, 0, tick_kind)
}

/// The tick strings of a style of kind `tick_kind` as the harness knows them (None: the library's
/// defaults are left in place and its own getters are the reference)
fn tick_list(tick_kind: u64) -> Option<Vec<String>> {
    match tick_kind % 8 {
        0 | 4 => Some(["0", "1", "2", "3", "4", "5", "6", "7", "8", "9", "F"].iter().map(|s| s.to_string()).collect()),
        1 => Some("abc\u{e9}efgX".chars().map(|c| c.to_string()).collect()),
        2 => Some(vec!["on".into(), "OFF".into()]),
        3 => None,
        k => Some((0..k).map(|i| format!("s{i}_")).chain(std::iter::once("END".to_string())).collect()),
    }
}

/// `gen` tells the tracker instances of successive styles apart (they share their counters)
fn mk_style_gen(field: &str, obs: &Arc<StdMutex<ObsShared>>, aux: &Arc<StdMutex<ObsShared>>, two_line: bool, gen: u64, tick_kind: u64) -> ProgressStyle {
    // (optionally below a line that is filled up by the message: the key under test is then the
    // first placeholder of a later template line)
    let t = if two_line { format!("{{wide_msg}}\n{field}{{obs}}") } else { format!("{field}{{obs}}") };
    let st = ProgressStyle::with_template(&t).unwrap();
    let st = match (tick_kind % 8, tick_list(tick_kind)) {
        (_, None) => st,
        (1, Some(l)) => st.tick_chars(&l.concat()),
        (_, Some(l)) => st.tick_strings(&l.iter().map(|s| s.as_str()).collect::<Vec<_>>()),
    };
    st.with_key(
            "obs",
            Obs {
                shared: obs.clone(),
                text: String::new(),
                gen,
            },
        )
        // a custom key that is registered with the style but not shown by the template: it
        // must be ticked and reset together with the bar all the same
        .with_key(
            "aux",
            Obs {
                shared: aux.clone(),
                text: String::new(),
                gen,
            },
        )
}

/// What `{key}` must render for the bar as it is now: the getter pushed through the public
/// formatter the docs name (None for the percent keys, which are compared numerically)
fn expected_value(key: &str, pb: &ProgressBar, ticks: u64, tick_kind: u64) -> Option<String> {
    let (pos, length) = (pb.position(), pb.length());
    let len_or_pos = length.unwrap_or(pos);
    let per_sec = pb.per_sec();
    match key {
        "pos" => Some(pos.to_string()),
        "human_pos" => Some(HumanCount(pos).to_string()),
        "len" => Some(len_or_pos.to_string()),
        "human_len" => Some(HumanCount(len_or_pos).to_string()),
        "bytes" => Some(HumanBytes(pos).to_string()),
        "binary_bytes" => Some(BinaryBytes(pos).to_string()),
        "total_bytes" => Some(HumanBytes(len_or_pos).to_string()),
        "binary_total_bytes" => Some(BinaryBytes(len_or_pos).to_string()),
        "decimal_bytes" => Some(DecimalBytes(pos).to_string()),
        "decimal_total_bytes" => Some(DecimalBytes(len_or_pos).to_string()),
        "elapsed_precise" => Some(FormattedDuration(pb.elapsed()).to_string()),
        "elapsed" => Some(format!("{:#}", HumanDuration(pb.elapsed()))),
        "eta_precise" => Some(FormattedDuration(pb.eta()).to_string()),
        "eta" => Some(format!("{:#}", HumanDuration(pb.eta()))),
        "duration_precise" => Some(FormattedDuration(pb.duration()).to_string()),
        "duration" => Some(format!("{:#}", HumanDuration(pb.duration()))),
        "per_sec" => Some(format!("{}/s", HumanFloatCount(per_sec))),
        "bytes_per_sec" => Some(format!("{}/s", HumanBytes(per_sec as u64))),
        "decimal_bytes_per_sec" => Some(format!("{}/s", DecimalBytes(per_sec as u64))),
        "binary_bytes_per_sec" => Some(format!("{}/s", BinaryBytes(per_sec as u64))),
        "msg" => Some(pb.message()),
        "prefix" => Some(pb.prefix()),
        "spinner" => Some(match tick_list(tick_kind) {
            // the strings the style was built with: all but the last one in turn, the last one
            // once finished
            Some(l) => {
                if pb.is_finished() {
                    l[l.len() - 1].clone()
                } else {
                    l[(ticks % (l.len() as u64 - 1)) as usize].clone()
                }
            }
            None => {
                let st = pb.style();
                if pb.is_finished() {
                    st.get_final_tick_str().to_string()
                } else {
                    st.get_tick_str(ticks).to_string()
                }
            }
        }),
        _ => None,
    }
}

fn exec(sc: &Scenario) -> Report {
    let sc2 = sc.clone();
    let (res, out) = World::run(Config::sequential(sc.seed), move || {
        let sc = sc2;
        let mut r = Report::default();
        let term = SimTerm::new(250, 10);
        let len = if sc.c("len_known") == 1 { Some(sc.c("len0")) } else { None };
        let tick_kind = sc.c("tick_kind");
        // (one bar in four is a member of a MultiProgress: the same values must come out)
        // (in_multi 2: the MultiProgress has no terminal during the history and gets it before
        // the frozen instant - custom keys are ticked and reset with the bar all the same)
        let mp = match sc.c("in_multi") {
            1 => Some(indicatif::MultiProgress::with_draw_target(ProgressDrawTarget::term_like(Box::new(term.clone())))),
            2 => Some(indicatif::MultiProgress::with_draw_target(ProgressDrawTarget::hidden())),
            _ => None,
        };
        let pb = match &mp {
            Some(mp) => mp.add(match len {
                Some(l) => ProgressBar::new(l),
                None => ProgressBar::no_length(),
            }),
            None => match sc.c("ctor") {
                // (the other constructors, retargeted to the simulated terminal before the first draw)
                1 => {
                    let pb = match len {
                        Some(l) => ProgressBar::new(l),
                        None => ProgressBar::no_length(),
                    };
                    pb.set_draw_target(ProgressDrawTarget::term_like(Box::new(term.clone())));
                    pb
                }
                2 => {
                    let pb = ProgressBar::new_spinner();
                    pb.set_draw_target(ProgressDrawTarget::term_like(Box::new(term.clone())));
                    if let Some(l) = len {
                        pb.set_length(l);
                    }
                    pb
                }
                _ => ProgressBar::with_draw_target(len, ProgressDrawTarget::term_like(Box::new(term.clone()))),
            },
        }
        .with_finish(finish_kind(sc.c("on_finish"), "fin"));
        let obs = Arc::new(StdMutex::new(ObsShared::default()));
        let aux = Arc::new(StdMutex::new(ObsShared::default()));
        pb.set_style(mk_style("pos", &obs, &aux, false, tick_kind));
        let mut ticks: u64 = 0;
        let mut resets: u64 = 0;
        let mut finished = false;
        let ops = sc.threads.first().cloned().unwrap_or_default();
        for (i, op) in ops.iter().enumerate() {
            let at = format!("op#{i} {}", op.short());
            let a = op.n0();
            let ticks_before = obs.lock().unwrap().ticks;
            let res = match op.k.as_str() {
                "advance" => {
                    sched::advance_quiet(a);
                    Ok(())
                }
                "inc" => {
                    // >= 1 ms since the previous position call: the position bucket admits it
                    sched::advance_quiet(1_000_000);
                    ticks += 1;
                    call(|| pb.inc(a))
                }
                "set_position" => {
                    sched::advance_quiet(1_000_000);
                    ticks += 1;
                    call(|| pb.set_position(a))
                }
                "tick" => {
                    ticks += 1;
                    call(|| pb.tick())
                }
                "update" => {
                    ticks += 1;
                    call(|| pb.update(|s| s.set_pos(a)))
                }
                "set_length" => call(|| pb.set_length(a)),
                "unset_length" => call(|| pb.unset_length()),
                "set_message" => call(|| pb.set_message(op.s0().to_string())),
                "set_prefix" => call(|| pb.set_prefix(op.s0().to_string())),
                "reset" => {
                    resets += 1;
                    finished = false;
                    let rr = call(|| pb.reset());
                    // "reset together with the bar": the state the tracker is handed is the
                    // bar's state after the reset (a tracker that takes a baseline from it would
                    // otherwise render values the bar never had)
                    let seen = obs.lock().unwrap().last_reset_state;
                    if rr.is_ok() && seen != Some((pb.position(), pb.is_finished())) {
                        r.violate(
                            "C11.tracker_reset",
                            format!(
                                "{at}: the custom key's tracker was reset with a state showing (position, finished) = {seen:?}, the bar after reset() shows ({}, {})",
                                pb.position(),
                                pb.is_finished()
                            ),
                        );
                        return r;
                    }
                    rr
                }
                "reset_eta" => call(|| pb.reset_eta()),
                "reset_elapsed" => call(|| pb.reset_elapsed()),
                // the style is taken from the bar, given another template and put back (the custom
                // keys registered with it stay registered, also while a template does not show
                // them; taking a copy of the style is no reset and no tick)
                "restyle" => call(|| match a % 4 {
                    0 => pb.set_style(pb.style().template("<{pos}>{obs}").unwrap()),
                    1 => pb.set_style(pb.style().template("{pos}").unwrap().template("<{pos}>{obs}").unwrap()),
                    2 => pb.set_style(pb.style().template("<{pos}>").unwrap()),
                    _ => drop(pb.style()),
                }),
                "finish" => {
                    finished = true;
                    call(|| apply_finish(&pb, a, op.s0()))
                }
                _ => Ok(()),
            };
            if let Err(p) = res {
                r.violate("C11.no_panic", format!("{at} panicked: {p}"));
                return r;
            }
            // custom keys are ticked together with the bar
            if matches!(op.k.as_str(), "tick" | "inc" | "set_position" | "update") && obs.lock().unwrap().ticks <= ticks_before {
                r.violate("C11.tracker_tick", format!("{at}: the bar ticked but the custom key's tracker was not ticked"));
                return r;
            }
        }
        {
            let (o, a) = (obs.lock().unwrap(), aux.lock().unwrap());
            if a.ticks != o.ticks || a.resets != o.resets {
                r.violate(
                    "C11.tracker_tick",
                    format!(
                        "a custom key that is registered but not shown by the template was ticked {} / reset {} times, the one in the template {} / {} times",
                        a.ticks, a.resets, o.ticks, o.resets
                    ),
                );
                return r;
            }
        }
        if obs.lock().unwrap().resets != resets {
            r.violate(
                "C11.tracker_reset",
                format!("the bar was reset {resets} times, the custom key's tracker {} times", obs.lock().unwrap().resets),
            );
            return r;
        }
        if sc.c("in_multi") == 2 {
            if let Some(mp) = &mp {
                mp.set_draw_target(ProgressDrawTarget::term_like(Box::new(term.clone())));
            }
        }
        // freeze: strictly after creation/reset so that the rate is defined
        sched::advance_quiet(sc.c("final_gap").max(1));
        let frozen = sched::clock_ns();
        let mut style_gen: u64 = 0;
        for key in KEYS {
            let ks = key.to_string();
            let drawn = call(|| {
                style_gen += 1;
                pb.set_style(mk_style_gen(&format!("<{{{ks}}}>"), &obs, &aux, sc.c("two_line") == 1, style_gen, tick_kind));
                pb.force_draw();
            });
            if let Err(p) = drawn {
                r.violate("C11.no_panic", format!("drawing {{{key}}} panicked: {p}"));
                return r;
            }
            if sched::clock_ns() != frozen {
                r.harness_error = Some("clock moved during the frozen phase".into());
                return r;
            }
            let line = term.transcript().last().cloned().unwrap_or_default();
            let finished_hidden = finished && pb.is_finished() && line.is_empty();
            if finished_hidden {
                // finish_and_clear: nothing is drawn at all; nothing to compare
                r.probe("finished_and_cleared");
                continue;
            }
            let shown = match (line.find('<'), line.rfind('>')) {
                (Some(a), Some(b)) if b > a => line[a + 1..b].to_string(),
                _ => {
                    r.violate("C11.render", format!("{{{key}}}: cannot find the rendered field in {line:?}"));
                    return r;
                }
            };
            // the custom key that was written is the one registered with the style set last
            let wg = obs.lock().unwrap().last_write_gen;
            if wg != style_gen {
                r.violate(
                    "C11.custom_key_state",
                    format!("{{{key}}}: the draw wrote the custom key registered with style #{wg}, the current style is #{style_gen}"),
                );
                return r;
            }
            // the state handed to a custom key at this draw agrees with the getters
            let (pos, length) = (pb.position(), pb.length());
            {
                let sh = obs.lock().unwrap();
                if let Some((wp, wl, wf)) = sh.writes.last() {
                    if *wp != pos || *wl != length || *wf != pb.is_finished() {
                        r.violate(
                            "C11.custom_key_state",
                            format!("{{{key}}}: the custom key was written with pos={wp} len={wl:?} finished={wf}, getters say {pos} {length:?} {}", pb.is_finished()),
                        );
                        return r;
                    }
                }
            }
            let expect: Option<String> = expected_value(key, &pb, ticks, tick_kind);
            if let Some(e) = expect {
                // the terminal right-trims; compare trimmed
                if shown.trim_end() != e.trim_end() {
                    r.violate(
                        "C11.key_value",
                        format!("{{{key}}} rendered {shown:?} but the bar state at that instant gives {e:?} (pos={pos} len={length:?} finished={} ticks={ticks})", pb.is_finished()),
                    );
                    return r;
                }
            } else {
                // percent / percent_precise: within rounding of 100*pos/len, clamped
                let frac: f64 = match length {
                    None => 0.0,
                    Some(0) => 1.0,
                    Some(l) => (pos as f64 / l as f64).clamp(0.0, 1.0),
                };
                let v: f64 = match shown.trim().parse::<f64>() {
                    Ok(v) if v.is_finite() => v,
                    _ => {
                        r.violate("C11.key_value", format!("{{{key}}} rendered {shown:?}, not a number"));
                        return r;
                    }
                };
                let tol = if key == "percent" { 0.5 + 2e-3 } else { 0.0005 + 2e-3 };
                if (v - frac * 100.0).abs() > tol {
                    r.violate(
                        "C11.key_value",
                        format!("{{{key}}} rendered {shown:?} but 100*pos/len (clamped) = {} (pos={pos} len={length:?})", frac * 100.0),
                    );
                    return r;
                }
            }
            r.probe("keys_compared");
        }
        // several keys in one template: each field shows its own value, in template order
        let cleared0 = finished && pb.is_finished() && term.transcript().last().map_or(true, |l| l.is_empty());
        if r.violation.is_none() && !cleared0 {
            const EXACT: [&str; 23] = [
                "spinner", "prefix", "msg", "pos", "human_pos", "len", "human_len", "bytes", "total_bytes", "decimal_bytes", "decimal_total_bytes",
                "binary_bytes", "binary_total_bytes", "elapsed_precise", "elapsed", "per_sec", "bytes_per_sec", "decimal_bytes_per_sec",
                "binary_bytes_per_sec", "eta_precise", "eta", "duration_precise", "duration",
            ];
            let mut pr = Rng::new(sc.seed ^ 0x636f6d626f);
            for _ in 0..3 {
                let n = pr.range(2, 5) as usize;
                let keys: Vec<&str> = (0..n).map(|_| *pr.pick(&EXACT)).collect();
                let field = format!("<{}>", keys.iter().map(|k| format!("{{{k}}}")).collect::<Vec<_>>().join("|"));
                let drawn = call(|| {
                    style_gen += 1;
                    pb.set_style(mk_style_gen(&field, &obs, &aux, sc.c("two_line") == 1, style_gen, tick_kind));
                    pb.force_draw();
                });
                if let Err(p) = drawn {
                    r.violate("C11.no_panic", format!("drawing {field} panicked: {p}"));
                    return r;
                }
                let line = term.transcript().last().cloned().unwrap_or_default();
                let e = format!("<{}>", keys.iter().map(|k| expected_value(k, &pb, ticks, tick_kind).unwrap_or_default()).collect::<Vec<_>>().join("|"));
                if !line.starts_with(&e) {
                    r.violate(
                        "C11.key_value",
                        format!("template {field} rendered {line:?} but the bar state at that instant gives {e:?} (pos={} len={:?} finished={} ticks={ticks})", pb.position(), pb.length(), pb.is_finished()),
                    );
                    return r;
                }
                r.probe("combined_templates_compared");
            }
        }
        // a custom key wins over a built-in key of the same name, and a key registered a second
        // time replaces the tracker registered first (both at the frozen instant)
        let cleared = finished && pb.is_finished() && term.transcript().last().map_or(true, |l| l.is_empty());
        if r.violation.is_none() && !cleared {
            let name = ["pos", "len", "eta", "msg", "percent", "elapsed"][(sc.seed % 6) as usize];
            let drawn = call(|| {
                style_gen += 1;
                let st = mk_style_gen(&format!("<{{{name}}}>"), &obs, &aux, sc.c("two_line") == 1, style_gen, tick_kind)
                    .with_key(name, |_: &indicatif::ProgressState, w: &mut dyn std::fmt::Write| write!(w, "#own#").unwrap());
                pb.set_style(st);
                pb.force_draw();
            });
            if let Err(p) = drawn {
                r.violate("C11.no_panic", format!("drawing a custom key named {name} panicked: {p}"));
                return r;
            }
            let line = term.transcript().last().cloned().unwrap_or_default();
            if !line.contains("<#own#>") {
                r.violate("C11.custom_key_state", format!("a custom key registered under the name {name:?} must be what {{{name}}} shows (\"#own#\"); the frame shows {line:?}"));
                return r;
            }
            r.probe("custom_key_shadows_builtin");
            let drawn = call(|| {
                style_gen += 1;
                let st = pb.style().with_key(
                    "obs",
                    Obs {
                        shared: obs.clone(),
                        text: String::new(),
                        gen: style_gen,
                    },
                );
                pb.set_style(st);
                pb.force_draw();
            });
            if let Err(p) = drawn {
                r.violate("C11.no_panic", format!("registering a custom key again panicked: {p}"));
                return r;
            }
            let wg = obs.lock().unwrap().last_write_gen;
            if wg != style_gen {
                r.violate(
                    "C11.custom_key_state",
                    format!("a custom key registered a second time under the same name (pb.style().with_key(..)) must replace the first tracker: the draw wrote tracker #{wg}, the one registered last is #{style_gen}"),
                );
                return r;
            }
            r.probe("custom_key_registered_again");
        }
        // custom keys are ticked together with the bar also when the ticks come from a steady ticker
        if sc.c("ticker_phase") == 1 && !pb.is_finished() && r.violation.is_none() {
            let d_ns: u64 = 20_000_000;
            let k: u64 = 6;
            let (t0, a0, f0) = (obs.lock().unwrap().ticks, aux.lock().unwrap().ticks, term.flushes());
            let ph = call(|| {
                pb.enable_steady_tick(std::time::Duration::from_nanos(d_ns));
                sched::sleep(k * d_ns);
                pb.disable_steady_tick();
            });
            if let Err(p) = ph {
                r.violate("C11.no_panic", format!("the steady-tick phase panicked: {p}"));
                return r;
            }
            let frames = term.flushes() - f0;
            let (dt, da) = (obs.lock().unwrap().ticks - t0, aux.lock().unwrap().ticks - a0);
            if frames >= 2 && (dt + 1 < frames || da + 1 < frames) {
                r.violate(
                    "C11.tracker_tick",
                    format!("a steady ticker painted {frames} frames of the bar, but the custom keys' trackers were ticked only {dt} / {da} times meanwhile"),
                );
                return r;
            }
            r.probe("steady_tick_phase");
        }
        r.nontrivial = ops.len() >= 2;
        drop(pb);
        r
    });
    finish_report(res, out)
}

impl Check for C11 {
    fn id(&self) -> &'static str {
        "C11"
    }
    fn rule_text(&self) -> String {
        "A random history (inc/set_position/update with positions and lengths including 0, len < pos, unknown length, u64::MAX and neighbours; ticks; messages and prefixes; reset/reset_eta/reset_elapsed; the style taken from the bar with style(), given another template (with or without the custom key, once or twice) and put back; every finish variant; clock gaps from 1 ms to hours, >= 1 ms between position calls so that the tick count is determined) is followed by a frozen virtual instant at which, for each of 25 documented keys (spinner, prefix, msg, pos, human_pos, len, human_len, percent, percent_precise, bytes family, elapsed*, per_sec, *_bytes_per_sec, eta*, duration*), a template <{key}> is set, a forced draw is captured from the simulated terminal and compared with the getter value pushed through the public formatter the docs name (percent: within rounding of 100*pos/len clamped; spinner: style.get_tick_str(tick count) / final tick string once finished; missing length renders as the position; the tick strings come from tick_strings with 2..11 entries, tick_chars, or the defaults, and the expected one is picked from the list the style was built with, not through the library's getter). Then three templates with 2..5 keys each (<{k1}|{k2}|..>) are drawn at the same instant and every field must show its own value in template order. One bar in four is a member of a MultiProgress (which, in a third of these runs, has no terminal during the history and gets it before the frozen instant); the bar is made by with_draw_target, by new()/no_length() or by new_spinner() followed by set_draw_target. The ProgressState handed to a custom key at each draw must agree with the getters, the tracker must be ticked with the bar (in one run out of four also by a steady ticker left running for six intervals) and reset exactly as often as the bar, with the bar's state after the reset. Non-trivial: history of >= 2 calls. Distinct = distinct scenario hash.".into()
    }
    fn assumptions(&self) -> Vec<String> {
        vec![
            "the public formatters (HumanCount, HumanBytes, ..., HumanDuration) are trusted here: their correctness is C15 (not applicable to simulation)".into(),
            "bar, wide_bar, wide_msg are excluded (geometry/truncation: C12, C13)".into(),
        ]
    }
    fn budget(&self, tier: Tier) -> Budget {
        match tier {
            Tier::Quick => Budget { runs: 20_000, wall_s: 90 },
            Tier::Thorough => Budget { runs: 300_000, wall_s: 600 },
        }
    }
    fn gen(&self, rng: &mut Rng, tier: Tier, _index: u64) -> Scenario {
        let mut sc = Scenario::new("C11", "seq", rng.next_u64());
        sc.set("len_known", rng.chance(4, 5) as u64);
        sc.set("len0", boundary_u64(rng));
        sc.set("two_line", rng.chance(1, 4) as u64);
        sc.set("tick_kind", rng.below(8));
        sc.set("in_multi", *rng.pick(&[0, 0, 0, 0, 0, 1, 1, 2]));
        sc.set("ctor", rng.below(3));
        sc.set("ticker_phase", rng.chance(1, 4) as u64);
        sc.set("on_finish", rng.below(5));
        sc.set("final_gap", *rng.pick(&[1, 1_000, 1_000_000, 1_500_000_000, 90_000_000_000, 100_000_000_000_000]));
        let n = rng.range(0, if tier == Tier::Quick { 15 } else { 30 });
        let mut ops = vec![];
        for _ in 0..n {
            let a = if rng.chance(1, 2) { boundary_u64(rng) } else { rng.below(5000) };
            ops.push(match rng.weighted(&[6, 8, 5, 6, 3, 4, 1, 4, 3, 1, 1, 1, 2, 3]) {
                0 => Op::new("advance").n(*rng.pick(&[1_000_000, 999_000_000, 1_000_000_000, 61_000_000_000, 3_600_000_000_000, 90_000_000_000_000])),
                1 => Op::new("inc").n(a),
                2 => Op::new("set_position").n(a),
                3 => Op::new("tick"),
                4 => Op::new("update").n(a),
                5 => Op::new("set_length").n(a),
                6 => Op::new("unset_length"),
                7 => Op::new("set_message").s(format!("msg {} \u{e9}", rng.below(1000))),
                8 => Op::new("set_prefix").s(format!("pre{}", rng.below(1000))),
                9 => Op::new("reset"),
                10 => Op::new("reset_eta"),
                11 => Op::new("reset_elapsed"),
                13 => Op::new("restyle").n(rng.below(4)),
                _ => Op::new("finish").n(rng.below(5)).s("final message"),
            });
        }
        sc.threads = vec![ops];
        sc
    }
    fn exec(&self, sc: &Scenario) -> Report {
        exec(sc)
    }
    fn shrink_cfg(&self) -> Vec<(&'static str, u64)> {
        vec![("len0", 0), ("final_gap", 1), ("two_line", 0), ("ticker_phase", 0), ("tick_kind", 0), ("in_multi", 0), ("ctor", 0)]
    }
}
