//! C08 — no deadlock; steady-tick thread lifecycle.
//!
//! race:   2..3 simulated user threads (plus the ticker threads the library spawns) perform short
//!         programs of public calls on shared handles under the seeded scheduler (random / sticky /
//!         PCT, spurious wake-ups, clock jitter); oracles: no deadlock (wait-for graph), every
//!         thread terminates once all handles are gone, stop calls return promptly without the
//!         clock having to move (no-time scope) whatever the tick interval.
//! ticker: one user thread + the ticker: the ticker paints without manual ticks, manual ticks do
//!         not advance the spinner while it is installed, it stops when the bar is finished,
//!         disabled, replaced or dropped, for intervals from 1 ms to 10 h.

use std::sync::atomic::{AtomicI64, Ordering};
use std::sync::Arc;
use std::time::Duration;

use indicatif::{MultiProgress, ProgressBar, ProgressDrawTarget, ProgressStyle};
use verif_simrt::rng::Rng;
use verif_simrt::sched;
use verif_simrt::World;

use crate::c07::{finish_report, gen_sched_cfg, sched_config};
use crate::common::*;
use crate::engine::{Budget, Check, Tier};
use crate::scenario::{Op, Report, Scenario};
use crate::simterm::SimTerm;

pub struct C08;

const INTERVALS_NS: [u64; 5] = [1_000_000, 7_000_000, 1_000_000_000, 3_600_000_000_000, 36_000_000_000_000];

fn live_tickers() -> usize {
    sched::thread_table()
        .iter()
        .filter(|(name, finished)| name.starts_with("spawned") && !*finished)
        .count()
}

struct Shared {
    /// number of bars whose owner thread has started enabling and not finished disabling a ticker
    tickers_allowed: AtomicI64,
    violations: std::sync::Mutex<Vec<(String, String)>>,
}

#[allow(clippy::too_many_arguments)]
fn run_program(ti: usize, bars: &[ProgressBar], mp: &Option<MultiProgress>, mp_term: &Option<SimTerm>, anchor: &Option<ProgressBar>, ops: &[Op], sh: &Shared, installed: &mut Vec<bool>) {
    for (i, op) in ops.iter().enumerate() {
        let b = (op.n0() as usize) % bars.len();
        let pb = &bars[b];
        let at = format!("thread {ti} op#{i} {}", op.short());
        let res = match op.k.as_str() {
            "update" => call(|| pb.update(|s| s.set_pos(op.n1()))),
            "enable_steady_tick" => {
                if !installed[b] {
                    sh.tickers_allowed.fetch_add(1, Ordering::SeqCst);
                    installed[b] = true;
                }
                let d = Duration::from_nanos(INTERVALS_NS[(op.n1() as usize) % INTERVALS_NS.len()]);
                // replacing a ticker stops the old one: must not need the clock to move
                call(|| sched::no_time_scope(|| pb.enable_steady_tick(d)))
            }
            "disable_steady_tick" => {
                let r = call(|| sched::no_time_scope(|| pb.disable_steady_tick()));
                if installed[b] {
                    installed[b] = false;
                    sh.tickers_allowed.fetch_sub(1, Ordering::SeqCst);
                }
                let live = live_tickers() as i64;
                let allowed = sh.tickers_allowed.load(Ordering::SeqCst);
                if live > allowed {
                    sh.violations.lock().unwrap().push((
                        "C08.ticker_not_stopped".into(),
                        format!("{at}: after disable_steady_tick() returned {live} ticker threads are alive but at most {allowed} tickers are installed"),
                    ));
                }
                r
            }
            "tick" => call(|| pb.tick()),
            "inc" => call(|| pb.inc(op.n1())),
            "set_message" => call(|| pb.set_message(format!("m{}", op.n1()))),
            "println" => call(|| pb.println("log")),
            "suspend" => call(|| {
                pb.suspend(|| {
                    sched::advance(op.n1());
                })
            }),
            "finish" => call(|| apply_finish(pb, op.n1(), "fin")),
            "is_finished" => call(|| {
                let _ = pb.is_finished();
            }),
            "position" => call(|| {
                let _ = (pb.position(), pb.length(), pb.eta());
            }),
            "clone_drop" => call(|| {
                let c = pb.clone();
                c.tick();
                drop(c);
            }),
            "reset" => call(|| pb.reset()),
            "set_length" => call(|| pb.set_length(op.n1())),
            "mp_remove" => call(|| {
                if let Some(mp) = mp {
                    mp.remove(pb);
                }
            }),
            "mp_add" => call(|| {
                // (re-)attach the bar; a bar that is still a member is first removed so that it is
                // never a member twice (double add is outside the property's scope)
                if let Some(mp) = mp {
                    mp.remove(pb);
                    let _ = mp.add(pb.clone());
                }
            }),
            "drop_clone_finish" => call(|| {
                // a clone that is dropped on this thread right after finishing through it
                let c = pb.clone();
                c.finish();
                drop(c);
            }),
            "mp_println" => call(|| {
                if let Some(mp) = mp {
                    let _ = mp.println("mplog");
                }
            }),
            "mp_suspend" => call(|| {
                if let Some(mp) = mp {
                    mp.suspend(|| sched::advance(op.n1()));
                }
            }),
            "mp_clear" => call(|| {
                if let Some(mp) = mp {
                    let _ = mp.clear();
                }
            }),
            "set_style" => call(|| {
                let t = ["{spinner} {pos}/{len} {msg}", "{msg}\n{pos}", "{prefix}{wide_msg}"][(op.n1() % 3) as usize];
                pb.set_style(ProgressStyle::with_template(t).unwrap());
            }),
            "debug_fmt" => call(|| {
                // rarely used trait methods: Debug of the handle and of the adaptor
                let _ = format!("{:?}", pb);
                let _ = format!("{:?}", pb.wrap_iter(0..0));
            }),
            "getters" => call(|| {
                let _ = (pb.message(), pb.prefix(), pb.elapsed(), pb.duration(), pb.per_sec(), pb.style(), pb.is_hidden());
            }),
            "weak" => call(|| {
                let w = pb.downgrade();
                if let Some(p2) = w.upgrade() {
                    p2.inc(1);
                }
            }),
            "iter" => call(|| {
                // iterator completion through a clone: inc per item, finish_using_style at the end
                for _ in pb.wrap_iter(0..op.n1() % 4) {}
            }),
            "mp_insert" => call(|| {
                if let Some(mp) = mp {
                    let nb = ProgressBar::with_draw_target(Some(3), ProgressDrawTarget::hidden());
                    let nb = match op.n1() % 3 {
                        0 => mp.insert(0, nb),
                        1 => mp.insert_from_back(0, nb),
                        _ => mp.add(nb),
                    };
                    nb.tick();
                    nb.finish();
                }
            }),
            // insertion relative to a member that is never removed, and calls on that member
            "mp_insert_rel" => call(|| {
                if let (Some(mp), Some(anchor)) = (mp, anchor) {
                    let nb = ProgressBar::with_draw_target(Some(3), ProgressDrawTarget::hidden());
                    let nb = if op.n1() % 2 == 0 { mp.insert_after(anchor, nb) } else { mp.insert_before(anchor, nb) };
                    nb.tick();
                    nb.finish();
                }
            }),
            "anchor_op" => call(|| {
                if let Some(anchor) = anchor {
                    match op.n1() % 4 {
                        0 => anchor.tick(),
                        1 => anchor.inc(1),
                        2 => anchor.update(|s| s.set_pos(3)),
                        _ => anchor.set_message("a"),
                    }
                }
            }),
            "mp_align" => call(|| {
                if let Some(mp) = mp {
                    mp.set_alignment(if op.n1() % 2 == 0 { indicatif::MultiProgressAlignment::Top } else { indicatif::MultiProgressAlignment::Bottom });
                    mp.set_move_cursor(false);
                }
            }),
            // the rest of the public calls on a handle (each takes the bar's lock, some of them
            // the MultiProgress lock or the ticker slot as well)
            "misc" => call(|| match op.n1() % 16 {
                0 => pb.set_tab_width((op.n1() / 16 % 9) as usize),
                1 => pb.set_prefix("p"),
                2 => pb.set_position(op.n1() / 16),
                3 => pb.dec(1),
                4 => pb.inc_length(2),
                5 => pb.dec_length(1),
                6 => pb.unset_length(),
                7 => pb.force_draw(),
                8 => pb.reset_eta(),
                9 => pb.reset_elapsed(),
                10 => pb.finish_using_style(),
                11 => drop(pb.clone().with_message("wm").with_prefix("wp")),
                12 => drop(pb.clone().with_position(op.n1() / 16).with_tab_width(4)),
                13 => drop(pb.clone().with_style(ProgressStyle::with_template("{msg} {pos}").unwrap())),
                14 => {
                    use std::io::Write;
                    let _ = pb.wrap_write(std::io::sink()).write_all(b"abc");
                }
                _ => {
                    let _ = (pb.is_hidden(), mp.as_ref().map(|m| m.is_hidden()));
                }
            }),
            // the MultiProgress is hidden and gets its terminal back
            "mp_target" => call(|| {
                if let (Some(mp), Some(t)) = (mp, mp_term) {
                    mp.set_draw_target(if op.n1() % 2 == 0 { ProgressDrawTarget::hidden() } else { ProgressDrawTarget::term_like(Box::new(t.clone())) });
                }
            }),
            "advance" => {
                sched::advance(op.n1());
                Ok(())
            }
            "sleep" => {
                sched::sleep(op.n1());
                Ok(())
            }
            _ => Ok(()),
        };
        if let Err(p) = res {
            sh.violations.lock().unwrap().push(("C08.no_panic".into(), format!("{at} panicked: {p}")));
        }
    }
}

fn exec_race(sc: &Scenario) -> Report {
    let sc2 = sc.clone();
    let mut cfg = sched_config(sc);
    cfg.step_cap = 60_000;
    cfg.atomics_yield = sc.c("atomics_yield") == 1;
    let (res, out) = World::run(cfg, move || {
        let sc = sc2;
        let mut r = Report::default();
        sched::name_current_thread("user-0");
        let term = SimTerm::new(40, 30);
        let nb = sc.c("n_bars").clamp(1, 3) as usize;
        let mp = if sc.c("use_mp") == 1 {
            Some(MultiProgress::with_draw_target(if sc.c("visible") == 1 {
                ProgressDrawTarget::term_like(Box::new(term.clone()))
            } else {
                ProgressDrawTarget::hidden()
            }))
        } else {
            None
        };
        // (the terminal a visible MultiProgress may lose and get back)
        let mp_term: Option<SimTerm> = (mp.is_some() && sc.c("visible") == 1).then(|| term.clone());
        let mut bars: Vec<ProgressBar> = vec![];
        for i in 0..nb {
            let target = if mp.is_some() || sc.c("visible") == 0 {
                ProgressDrawTarget::hidden()
            } else if i == 0 {
                ProgressDrawTarget::term_like(Box::new(term.clone()))
            } else {
                ProgressDrawTarget::term_like(Box::new(SimTerm::new(40, 30)))
            };
            let pb = ProgressBar::with_draw_target(Some(100), target)
                .with_finish(finish_kind(sc.c("on_finish"), "fin"));
            pb.set_style(ProgressStyle::with_template("{spinner} {pos}/{len} {msg}").unwrap());
            let pb = match &mp {
                Some(mp) => mp.add(pb),
                None => pb,
            };
            bars.push(pb);
        }
        let anchor: Option<ProgressBar> = mp
            .as_ref()
            .map(|mp| mp.add(ProgressBar::with_draw_target(Some(9), ProgressDrawTarget::hidden())));
        let sh = Arc::new(Shared {
            tickers_allowed: AtomicI64::new(0),
            violations: std::sync::Mutex::new(vec![]),
        });
        let mut handles = vec![];
        for (ti, ops) in sc.threads.iter().enumerate().skip(1) {
            let my_bars: Vec<ProgressBar> = bars.iter().map(|b| b.clone()).collect();
            let my_mp = mp.clone();
            let my_term = mp_term.clone();
            let my_anchor = anchor.clone();
            let ops = ops.clone();
            let sh2 = sh.clone();
            handles.push(verif_simrt::thread::spawn_named(&format!("user-{ti}"), move || {
                let mut installed = vec![false; my_bars.len()];
                run_program(ti, &my_bars, &my_mp, &my_term, &my_anchor, &ops, &sh2, &mut installed);
                drop(my_anchor);
                // a thread that installed a ticker and leaves it installed: the ticker lives on
                // with the bar; it is still "allowed"
                drop(my_bars);
                drop(my_mp);
            }));
        }
        let ops0 = sc.threads.first().cloned().unwrap_or_default();
        let mut installed = vec![false; bars.len()];
        run_program(0, &bars, &mp, &mp_term, &anchor, &ops0, &sh, &mut installed);
        for h in handles {
            if let Err(p) = h.join() {
                r.violate("C08.no_panic", format!("user thread panicked: {}", sched::panic_message(&p)));
            }
        }
        // all programs are done: dropping the last handles must stop every ticker, promptly and
        // without the clock having to move
        let had_tickers = live_tickers();
        let panic_owner = sc.c("panic_owner") == 1;
        let dr = call(|| {
            sched::no_time_scope(|| {
                if panic_owner {
                    // the last handles go away while their owner unwinds from a panic
                    let h = verif_simrt::thread::spawn_named("user-panic", move || {
                        let _keep = (bars, anchor, mp);
                        panic!("VERIF-INTENTIONAL panic of the thread that owns the last handles");
                    });
                    let _ = h.join();
                } else {
                    drop(bars);
                    drop(anchor);
                    drop(mp);
                }
            })
        });
        if panic_owner {
            r.probe("last_handles_dropped_while_unwinding");
        }
        if let Err(p) = dr {
            r.violate("C08.no_panic", format!("dropping the last handles panicked: {p}"));
        }
        let live = live_tickers();
        if live > 0 {
            r.violate(
                "C08.ticker_outlives_handles",
                format!("after the last handle was dropped {live} steady-tick threads are still alive ({had_tickers} before the drop)"),
            );
        }
        for (rule, d) in sh.violations.lock().unwrap().iter() {
            r.violate(rule, d.clone());
        }
        if had_tickers > 0 {
            r.probe("last_handle_dropped_with_live_ticker");
        }
        r.nontrivial = sc.threads.iter().filter(|t| !t.is_empty()).count() >= 2;
        r
    });
    let mut rep = finish_report(res, out.clone());
    if let Some(v) = &out.no_time_violation {
        rep.violate("C08.stop_depends_on_interval", v.clone());
    }
    if let Some((rule, d)) = &rep.violation {
        if rule == "deadlock" {
            rep.violation = Some(("C08.deadlock".into(), format!("no runnable thread and no pending timer; wait-for: {d}")));
        }
    }
    if out.step_cap_hit && rep.violation.is_none() {
        // the short programs of a scenario need a few hundred steps; a world that is still busy
        // after 60 000 has a call that never returns while another thread keeps running
        rep.harness_error = None;
        rep.violate(
            "C08.no_progress",
            "the scenario did not come to an end within the step cap: some call does not return while another thread (a steady ticker) keeps running".to_string(),
        );
    }
    rep
}

/// ticker mode: a single user thread with explicit phases
fn exec_ticker(sc: &Scenario) -> Report {
    let sc2 = sc.clone();
    let mut cfg = sched_config(sc);
    cfg.step_cap = 60_000;
    let (res, out) = World::run(cfg, move || {
        let sc = sc2;
        let mut r = Report::default();
        sched::name_current_thread("user-0");
        let term = SimTerm::new(30, 10);
        term.lock().snapshot_at_flush = true;
        // a slow terminal: every flush takes simulated time (while the bar's lock is held)
        let slow_ns = sc.c("slow_flush_ns");
        if slow_ns > 0 {
            term.set_fault(crate::simterm::FaultPlan {
                slow_flush_ns: slow_ns,
                ..Default::default()
            });
        }
        let d_ns = INTERVALS_NS[(sc.c("interval") as usize) % INTERVALS_NS.len()];
        let d = Duration::from_nanos(d_ns);
        // the bar may start without a terminal and get one later (op "show"): a steady ticker
        // enabled meanwhile has to tick the bar all the same once it can be seen
        let in_mp = sc.c("in_mp") == 1;
        let mut visible = sc.c("start_hidden") != 1 || in_mp;
        let first_target = if visible { ProgressDrawTarget::term_like(Box::new(term.clone())) } else { ProgressDrawTarget::hidden() };
        // (in one run out of four the bar is the member of a MultiProgress, which it may leave
        // and join again: that is no reason for its ticker to stop)
        let mp = in_mp.then(|| MultiProgress::with_draw_target(ProgressDrawTarget::term_like(Box::new(term.clone()))));
        let pb = match &mp {
            Some(mp) => mp.add(ProgressBar::new(100)),
            None => ProgressBar::with_draw_target(Some(100), first_target),
        }
        .with_finish(finish_kind(sc.c("on_finish"), "fin"));
        let mut member = in_mp;
        pb.set_style(
            ProgressStyle::with_template("{spinner}|{pos}")
                .unwrap()
                .tick_strings(&["0", "1", "2", "3", "4", "5", "6", "7", "8", "9", "F"]),
        );
        let main_tid = sched::tid().unwrap_or(0);
        let ops = sc.threads.first().cloned().unwrap_or_default();
        let mut installed = false;
        let mut finished = false;
        let mut finished_with_ticker = false;
        // frames seen so far
        let mut seen = 0usize;
        let digit_of = |rows: &Vec<String>| -> Option<char> { rows.last().and_then(|l| l.chars().next()) };
        let mut last_digit: Option<char> = None;
        for (i, op) in ops.iter().enumerate() {
            let at = format!("op#{i} {}", op.short());
            let flush_before = term.flushes();
            // the call goes through a temporary second handle: a clone, or a weak handle
            // upgraded again; both share the bar and its ticker with the original
            let via = (sc.c("handle_mask") >> (2 * (i % 30))) & 3;
            let pb_main = &pb;
            let tmp: Option<ProgressBar> = match via {
                1 => Some(pb_main.clone()),
                2 => pb_main.downgrade().upgrade(),
                _ => None,
            };
            let pb = tmp.as_ref().unwrap_or(pb_main);
            let res = match op.k.as_str() {
                "enable" => {
                    let r0 = call(|| sched::no_time_scope(|| pb.enable_steady_tick(d)));
                    installed = true;
                    r0
                }
                "disable" => {
                    let r0 = call(|| sched::no_time_scope(|| pb.disable_steady_tick()));
                    installed = false;
                    let live = live_tickers();
                    if live > 0 {
                        r.violate("C08.ticker_not_stopped", format!("{at}: {live} ticker threads alive after disable_steady_tick() returned"));
                    }
                    r0
                }
                "show" => {
                    // (a member of the MultiProgress is never given the terminal directly: two
                    // owners of one terminal are outside the property)
                    let r0 = if visible || in_mp {
                        Ok(())
                    } else {
                        // (ticks that happened while the bar could not be seen moved the spinner unseen)
                        last_digit = None;
                        call(|| pb.set_draw_target(ProgressDrawTarget::term_like(Box::new(term.clone()))))
                    };
                    visible = visible || !in_mp;
                    r0
                }
                "mp_remove" => match &mp {
                    Some(mp) if member => {
                        member = false;
                        visible = false;
                        // (ticks that happen while the bar cannot be seen move the spinner unseen)
                        last_digit = None;
                        call(|| mp.remove(pb))
                    }
                    _ => Ok(()),
                },
                "mp_readd" => match &mp {
                    Some(mp) if !member => {
                        member = true;
                        visible = true;
                        last_digit = None;
                        call(|| drop(if op.n0() % 2 == 0 { mp.add(pb.clone()) } else { mp.insert(0, pb.clone()) }))
                    }
                    _ => Ok(()),
                },
                // calls that have nothing to do with the ticker: it stays as it is
                "neutral" => call(|| match op.n0() % 12 {
                    // (the adaptors move the position like set_position / inc do: no manual tick)
                    8 => {
                        use std::io::Seek;
                        let _ = pb.wrap_read(std::io::Cursor::new(vec![0u8; 64])).seek(std::io::SeekFrom::Start(op.n0() % 60));
                    }
                    9 => {
                        use std::io::Read;
                        let mut buf = [0u8; 8];
                        let _ = pb.wrap_read(&[1u8; 32][..]).read(&mut buf);
                    }
                    10 => {
                        use std::io::Write;
                        let _ = pb.wrap_write(std::io::sink()).write(b"abcd");
                    }
                    11 => {
                        let _ = pb.wrap_iter(0..5).nth(2);
                    }
                    0 => pb.set_length(100 + op.n0()),
                    1 => pb.set_prefix("p"),
                    2 => pb.println("log"),
                    3 => pb.reset_eta(),
                    4 => pb.set_tab_width(4),
                    5 => pb.suspend(|| ()),
                    6 => {
                        if let Some(mp) = &mp {
                            let _ = mp.println("mplog");
                        }
                    }
                    _ => {
                        let _ = (pb.is_hidden(), pb.eta(), pb.message());
                    }
                }),
                "tick" => call(|| pb.tick()),
                "inc" => call(|| pb.inc(op.n0())),
                "set_message" => call(|| pb.set_message("m")),
                "finish" => {
                    finished = true;
                    if installed {
                        finished_with_ticker = true;
                    }
                    call(|| apply_finish(pb, op.n0(), "fin"))
                }
                "reset" => {
                    // a finished bar goes back to work; the ticker thread of a finished bar has
                    // stopped (or stops at its next wake-up) and must be enabled again
                    if finished {
                        // let it notice that the bar is finished before it is reset
                        sched::sleep(2 * d_ns + 1);
                        installed = false;
                    }
                    finished = false;
                    call(|| pb.reset())
                }
                "sleep_intervals" => {
                    // k tick intervals pass while the user thread does nothing
                    let k = op.n0().max(1);
                    sched::sleep(k * d_ns);
                    let painted_by_ticker = {
                        let t = term.lock();
                        t.flush_log.iter().filter(|(f, _, _, tid)| *f > flush_before && *tid != main_tid).count() as u64
                    };
                    // each loop of the ticker costs one interval plus the (injected) time its own
                    // clock reads take
                    let period = d_ns + 8 * sc.c("now_jitter_ns") + slow_ns;
                    let expect = (k * d_ns / period).saturating_sub(1);
                    if installed && !finished && visible && painted_by_ticker < expect {
                        r.violate(
                            "C08.ticker_does_not_tick",
                            format!("{at}: a steady ticker with interval {d_ns} ns is installed, {k} intervals passed, but only {painted_by_ticker} frames were painted by the ticker thread"),
                        );
                    }
                    if (!installed || finished) && painted_by_ticker > 1 {
                        r.violate(
                            "C08.ticker_ticks_after_stop",
                            format!("{at}: {painted_by_ticker} frames were painted by a ticker thread although the ticker is {}", if finished { "on a finished bar" } else { "not installed" }),
                        );
                    }
                    if installed && !finished {
                        r.probe("ticker_frames_while_idle");
                    }
                    Ok(())
                }
                _ => Ok(()),
            };
            if let Err(p) = res {
                r.violate("C08.no_panic", format!("{at} panicked: {p}"));
            }
            if tmp.is_some() {
                r.probe(if via == 2 { "call_through_upgraded_weak_handle" } else { "call_through_clone" });
            }
            drop(tmp);
            // spinner rule over the frames painted during this op
            let (snaps, log): (Vec<(u64, Vec<String>)>, Vec<(u64, u64, u64, usize)>) = {
                let t = term.lock();
                (t.snapshots[seen..].to_vec(), t.flush_log[seen..].to_vec())
            };
            seen += snaps.len();
            for ((_, rows), (_, _, _, tid)) in snaps.iter().zip(log.iter()) {
                let dg = digit_of(rows);
                if std::env::var_os("VERIF_TRACE").is_some() {
                    eprintln!("{at}: frame by tid {tid} (main {main_tid}): {rows:?}");
                }
                if let (Some(prev), Some(cur)) = (last_digit, dg) {
                    if prev.is_ascii_digit() && cur.is_ascii_digit() && installed && !finished && op.k != "enable" && op.k != "disable" {
                        let adv = (cur as u8 + 10 - prev as u8) % 10;
                        if *tid == main_tid && adv != 0 {
                            r.violate(
                                "C08.manual_tick_advances_spinner",
                                format!("{at}: a frame painted by the user thread while a steady ticker is installed moved the spinner from {prev} to {cur}"),
                            );
                        }
                        if *tid != main_tid && adv != 1 {
                            r.violate(
                                "C08.spinner_step",
                                format!("{at}: consecutive frames of the ticker thread moved the spinner from {prev} to {cur} (expected one step)"),
                            );
                        }
                    }
                }
                last_digit = dg;
            }
            if r.violation.is_some() {
                break;
            }
        }
        // finished bar: the ticker thread must be gone at its next wake-up at the latest
        if finished && installed && finished_with_ticker {
            sched::sleep(2 * d_ns + 1);
            let live = live_tickers();
            if live > 0 {
                r.violate("C08.ticker_survives_finish", format!("{live} ticker threads alive two intervals after the bar was finished"));
            }
            r.probe("finish_with_ticker_installed");
        }
        let dr = call(|| sched::no_time_scope(|| drop(pb)));
        if let Err(p) = dr {
            r.violate("C08.no_panic", format!("dropping the bar panicked: {p}"));
        }
        let live = live_tickers();
        if live > 0 {
            r.violate("C08.ticker_outlives_handles", format!("{live} ticker threads alive after the last handle was dropped"));
        }
        r.probe(match d_ns {
            x if x >= 3_600_000_000_000 => "interval_hours",
            x if x >= 1_000_000_000 => "interval_seconds",
            _ => "interval_millis",
        });
        r.nontrivial = ops.len() >= 2;
        r
    });
    let mut rep = finish_report(res, out.clone());
    if let Some(v) = &out.no_time_violation {
        rep.violate("C08.stop_depends_on_interval", v.clone());
    }
    if let Some((rule, d)) = &rep.violation {
        if rule == "deadlock" {
            rep.violation = Some(("C08.deadlock".into(), format!("no runnable thread and no pending timer; wait-for: {d}")));
        }
    }
    if out.step_cap_hit && rep.violation.is_none() {
        // the short programs of a scenario need a few hundred steps; a world that is still busy
        // after 60 000 has a call that never returns while another thread keeps running
        rep.harness_error = None;
        rep.violate(
            "C08.no_progress",
            "the scenario did not come to an end within the step cap: some call does not return while another thread (a steady ticker) keeps running".to_string(),
        );
    }
    rep
}

impl Check for C08 {
    fn id(&self) -> &'static str {
        "C08"
    }
    fn rule_text(&self) -> String {
        "race: 2..3 simulated user threads each run 2..6 calls of update/enable_steady_tick/disable_steady_tick/tick/inc/set_message/println/suspend/finish/is_finished/getters/clone+drop/reset/set_length/mp.println/mp.suspend/mp.clear/mp.remove/mp.add (re-attach)/finish through a clone dropped on the same thread/set_style/message+prefix+elapsed+duration+per_sec+style getters/downgrade+upgrade/wrap_iter completion/Debug formatting/mp.insert+insert_from_back+add of a fresh bar/insert_before+insert_after relative to a permanent member that other threads tick and update/mp.set_alignment/set_tab_width/set_prefix/set_position/dec/inc_length/dec_length/unset_length/force_draw/reset_eta/reset_elapsed/finish_using_style/the with_message, with_prefix, with_position, with_tab_width, with_style builders through a clone/wrap_write/is_hidden of the bar and of the MultiProgress/MultiProgress::set_draw_target (hidden, and its terminal back)/advance/sleep on 1..3 shared bars (standalone or in a MultiProgress, hidden or on a simulated terminal), tick intervals 1 ms..10 h, under a seeded random / sticky / PCT scheduler with spurious condvar wake-ups and clock jitter, read-write locks that prefer waiting writers in half of the runs; every lock, condvar, spawn, join (and optionally atomic) is a scheduling point. Oracles: no deadlock (no runnable thread and no pending timer; wait-for graph reported), all threads terminate once all handles are gone, disable/replace/drop return without the virtual clock having to move and leave no ticker thread behind. ticker: one user thread with phases enable / sleep k intervals / manual tick / inc / set_message / finish / disable / calls that do not concern the ticker (set_length, set_prefix, println, reset_eta, set_tab_width, suspend, mp.println, getters, a seek / read / write / a few items through the adaptors) / for a bar that is the member of a MultiProgress (one run in four) remove and add or insert again: the ticker paints >= k-1 frames while idle, manual ticks do not advance the spinner, consecutive ticker frames advance it by one, no ticker frames after stop, the ticker thread is gone after finish (within two intervals), disable and drop. Non-trivial: race = >= 2 threads with operations; ticker = >= 2 phases. Distinct = distinct scenario hash; distinct interleavings reported separately.".into()
    }
    fn assumptions(&self) -> Vec<String> {
        vec![
            "user callbacks do not re-enter the library (closures only advance the virtual clock)".into(),
            "enable/disable_steady_tick on a given bar are issued by one owner thread per bar (the live-ticker count oracle needs it); other threads do everything else concurrently".into(),
            "'stops when finished' is read as: no further tick after finish() returned and the thread exits at its next wake-up (the mechanism has no channel from finish to the ticker)".into(),
        ]
    }
    fn budget(&self, tier: Tier) -> Budget {
        match tier {
            Tier::Quick => Budget { runs: 100_000, wall_s: 90 },
            Tier::Thorough => Budget { runs: 1_500_000, wall_s: 900 },
        }
    }
    fn corpus(&self) -> Vec<Scenario> {
        let mut v = vec![];
        // the update() / disable_steady_tick() / ticker triangle
        for seed in 0..6 {
            let mut s = Scenario::new("C08", "race", 800 + seed);
            s.set("n_bars", 1);
            s.set("visible", 0);
            s.set("strategy", seed % 3);
            s.set("sticky_p", 500);
            s.set("pct_depth", 3);
            s.set("pct_steps", 60);
            s.threads = vec![
                vec![Op::new("enable_steady_tick").n(0).n(0), Op::new("advance").n(0).n(2_000_000), Op::new("disable_steady_tick").n(0)],
                vec![Op::new("update").n(0).n(5), Op::new("update").n(0).n(6), Op::new("update").n(0).n(7)],
            ];
            v.push(s);
        }
        let mut s = Scenario::new("C08", "ticker", 850);
        s.set("interval", 4);
        s.threads = vec![vec![
            Op::new("enable"),
            Op::new("sleep_intervals").n(5),
            Op::new("tick"),
            Op::new("inc").n(1),
            Op::new("sleep_intervals").n(2),
            Op::new("disable"),
            Op::new("sleep_intervals").n(3),
        ]];
        v.push(s);
        v
    }
    fn gen(&self, rng: &mut Rng, tier: Tier, _index: u64) -> Scenario {
        if rng.chance(1, 4) {
            let mut sc = Scenario::new("C08", "ticker", rng.next_u64());
            sc.set("interval", rng.below(5));
            sc.set("on_finish", rng.below(5));
            sc.set("slow_flush_ns", *rng.pick(&[0, 0, 0, 300_000, 5_000_000]));
            sc.set("start_hidden", rng.chance(1, 5) as u64);
            sc.set("in_mp", rng.chance(1, 4) as u64);
            if rng.chance(1, 2) {
                // two bits per call: 0 = original handle, 1 = clone, 2 = upgraded weak handle
                let mut m = 0u64;
                for k in 0..30 {
                    m |= rng.weighted(&[3, 1, 2]) as u64 * (1 << (2 * k));
                }
                sc.set("handle_mask", m);
            }
            gen_sched_cfg(&mut sc, rng, 80);
            let mut ops = vec![];
            let n = rng.range(2, if tier == Tier::Quick { 8 } else { 14 });
            for _ in 0..n {
                ops.push(match rng.weighted(&[4, 3, 5, 3, 2, 2, 1, 1, 2, if sc.c("in_mp") == 1 { 2 } else { 0 }, if sc.c("in_mp") == 1 { 3 } else { 0 }]) {
                    7 => Op::new("reset"),
                    8 => Op::new("neutral").n(rng.below(64)),
                    9 => Op::new("mp_remove"),
                    10 => Op::new("mp_readd").n(rng.below(2)),
                    0 => Op::new("enable"),
                    1 => Op::new("disable"),
                    2 => Op::new("sleep_intervals").n(rng.range(1, 6)),
                    3 => Op::new("tick"),
                    4 => Op::new("inc").n(rng.below(3)),
                    5 => Op::new("set_message"),
                    _ => Op::new("finish").n(rng.below(5)),
                });
            }
            if sc.c("start_hidden") == 1 {
                let at = rng.usize_below(ops.len() + 1);
                ops.insert(at, Op::new("show"));
            }
            sc.threads = vec![ops];
            return sc;
        }
        let mut sc = Scenario::new("C08", "race", rng.next_u64());
        let nt = rng.range(2, 3) as usize;
        let nb = rng.range(1, 2);
        sc.set("n_bars", nb);
        sc.set("use_mp", rng.chance(1, 3) as u64);
        sc.set("visible", rng.chance(1, 2) as u64);
        sc.set("on_finish", rng.below(5));
        sc.set("atomics_yield", rng.chance(1, 4) as u64);
        sc.set("panic_owner", rng.chance(1, 8) as u64);
        // (in half of the runs read-write locks prefer writers, like std's do on Linux: a reader
        // waits while a writer is waiting, so a second read() under a read guard can block for good)
        sc.set("rw_pref", rng.chance(1, 2) as u64);
        gen_sched_cfg(&mut sc, rng, 40 * nt as u64);
        let mut threads = vec![];
        for ti in 0..nt {
            let n = rng.range(2, if tier == Tier::Quick { 6 } else { 9 });
            let mut ops = vec![];
            for _ in 0..n {
                let b = rng.below(nb);
                let owner = (b as usize) % nt == ti;
                let k = rng.weighted(&[8, if owner { 6 } else { 0 }, if owner { 5 } else { 0 }, 4, 4, 3, 2, 2, 3, 2, 2, 2, 1, 1, 1, 1, 1, 3, 2, 2, 2, 1, 1, 1, 1, 1, 1, 1, 2, 2, 1, 6, 1]);
                ops.push(match k {
                    0 => Op::new("update").n(b).n(rng.below(100)),
                    1 => Op::new("enable_steady_tick").n(b).n(rng.below(5)),
                    2 => Op::new("disable_steady_tick").n(b),
                    3 => Op::new("tick").n(b),
                    4 => Op::new("inc").n(b).n(rng.below(3)),
                    5 => Op::new("set_message").n(b).n(rng.below(10)),
                    6 => Op::new("println").n(b),
                    7 => Op::new("suspend").n(b).n(*rng.pick(&[0, 1_000, 5_000_000])),
                    8 => Op::new("finish").n(b).n(rng.below(5)),
                    9 => Op::new("is_finished").n(b),
                    10 => Op::new("position").n(b),
                    11 => Op::new("clone_drop").n(b),
                    12 => Op::new("reset").n(b),
                    13 => Op::new("set_length").n(b).n(rng.below(50)),
                    14 => Op::new("mp_println"),
                    15 => Op::new("mp_suspend").n(0).n(*rng.pick(&[0, 2_000_000])),
                    16 => Op::new("mp_clear"),
                    17 => Op::new("advance").n(0).n(*rng.pick(&[0, 500_000, 2_000_000, 1_000_000_000])),
                    19 => Op::new("mp_remove").n(b),
                    20 => Op::new("mp_add").n(b),
                    21 => Op::new("drop_clone_finish").n(b),
                    22 => Op::new("set_style").n(b).n(rng.below(3)),
                    23 => Op::new("getters").n(b),
                    24 => Op::new("weak").n(b),
                    25 => Op::new("iter").n(b).n(rng.below(4)),
                    26 => Op::new("mp_insert").n(b).n(rng.below(3)),
                    27 => Op::new("mp_align").n(b).n(rng.below(2)),
                    28 => Op::new("mp_insert_rel").n(b).n(rng.below(2)),
                    29 => Op::new("anchor_op").n(b).n(rng.below(4)),
                    30 => Op::new("debug_fmt").n(b),
                    31 => Op::new("misc").n(b).n(rng.below(16 * 60)),
                    32 => Op::new("mp_target").n(b).n(rng.below(2)),
                    _ => Op::new("sleep").n(0).n(*rng.pick(&[1_000_000, 15_000_000])),
                });
            }
            threads.push(ops);
        }
        sc.threads = threads;
        sc
    }
    fn exec(&self, sc: &Scenario) -> Report {
        match sc.mode.as_str() {
            "ticker" => exec_ticker(sc),
            _ => exec_race(sc),
        }
    }
    fn shrink_cfg(&self) -> Vec<(&'static str, u64)> {
        vec![("handle_mask", 0), ("slow_flush_ns", 0), ("panic_owner", 0), ("start_hidden", 0), ("in_mp", 0), ("use_mp", 0), ("visible", 0), ("now_jitter_ns", 0), ("spurious_pm", 0), ("n_bars", 1), ("atomics_yield", 0), ("rw_pref", 0)]
    }
}
