//! Generators for texts and templates of the model-renderable family.

use verif_simrt::rng::Rng;

const SGR: [&str; 4] = ["\x1b[1m", "\x1b[0m", "\x1b[31m", "\x1b[38;5;42m"];

/// One line of text with a display width drawn around multiples of the terminal width.
pub fn gen_line(rng: &mut Rng, w: usize, tag: &str, allow_special: bool) -> String {
    // (multiples of the width up to 3 W, now and then up to 7 W)
    // (on terminals of middling width the long multiples are cheap: half of the lines there)
    let long = if (26..=260).contains(&w) { rng.chance(1, 2) } else { rng.chance(1, 5) };
    let k = if long { rng.below(8) as usize } else { rng.below(4) as usize };
    let target: usize = match rng.below(12) {
        0 => 0,
        1 => 1,
        2 => (k * w).saturating_sub(1),
        3 | 4 => k * w,
        5 => k * w + 1,
        6 => w,
        7 => w + 1,
        8 => w.saturating_sub(1),
        _ => rng.below(12) as usize,
    };
    let target = target.min(8 * w.max(1)).min(if w > 25 { 2000 } else { 200 });
    if target == 0 {
        // empty, or zero-width (SGR only)
        return if allow_special && rng.chance(1, 2) {
            SGR[rng.usize_below(SGR.len())].to_string()
        } else {
            String::new()
        };
    }
    let mut s = String::new();
    let mut width = 0;
    // start with the tag so that lines are attributable
    for c in tag.chars() {
        if width < target {
            s.push(c);
            width += 1;
        }
    }
    // double-width characters: mostly in short lines on wide terminals (they cannot wrap
    // there); now and then anywhere (a wrapping line with one is known finding KF-WIDE-WRAP)
    let wide_ok = allow_special && ((w >= 20 && target <= 6) || (w >= 2 && rng.chance(1, 40)));
    while width < target {
        if allow_special && rng.chance(1, 12) {
            s.push_str(SGR[rng.usize_below(SGR.len())]);
            continue;
        }
        if wide_ok && target - width >= 2 && rng.chance(1, 4) {
            s.push(*rng.pick(&['界', '語', '한']));
            width += 2;
            continue;
        }
        let c = if allow_special && rng.chance(1, 10) {
            *rng.pick(&['é', 'ß', 'λ', ' '])
        } else {
            (b'a' + rng.below(26) as u8) as char
        };
        s.push(c);
        width += 1;
    }
    s
}

/// Text with 0..=max_lines lines (embedded newlines).
pub fn gen_text(rng: &mut Rng, w: usize, tag: &str, max_lines: usize, allow_special: bool) -> String {
    let n = match rng.below(10) {
        0 => 0,
        1..=6 => 1,
        7 | 8 => 2,
        _ => max_lines,
    }
    .min(max_lines);
    let mut parts = vec![];
    for i in 0..n {
        parts.push(gen_line(rng, w, &format!("{tag}{}", if n > 1 { i.to_string() } else { String::new() }), allow_special));
    }
    // (line ends are LF; in printed lines - tags L, M, N - now and then CR LF as in text that
    // comes from a Windows tool: println splits with str::lines. Messages are split at LF only,
    // a CR in a message is a control character like any other and not generated)
    let crlf = matches!(tag.chars().next(), Some('L' | 'M' | 'N')) && rng.chance(1, 15);
    let mut s = parts.join(if crlf { "\r\n" } else { "\n" });
    if n >= 1 && rng.chance(1, 12) {
        s.push_str(if crlf { "\r\n" } else { "\n" }); // trailing newline: an empty last line
    }
    s
}

/// Style attributes a key of a generated template may carry (colours are enabled in the harness
/// process, so they really put SGR sequences around the value).
pub const KEY_STYLES: [&str; 3] = [":.green", ":.red.bold", ":.dim"];

fn styled(rng: &mut Rng, key: &str, on: bool) -> String {
    if on && rng.chance(1, 3) {
        format!("{{{key}{}}}", rng.pick(&KEY_STYLES))
    } else {
        format!("{{{key}}}")
    }
}

/// A template of the model-renderable family. `{obs}` appears exactly once.
pub fn gen_template(rng: &mut Rng, tag: &str, tabs: bool) -> String {
    // one template in five has style attributes on some of its keys
    let st = rng.chance(1, 5);
    let n_lines = rng.weighted(&[6, 3, 1]) + 1;
    let mut lines = vec![];
    for li in 0..n_lines {
        let mut l = String::new();
        if li == 0 {
            l.push_str(&styled(rng, "obs", st));
        }
        if !tabs && rng.chance(1, 25) {
            // an opening brace followed by a line break: literal text that contains a line break
            l.push_str("{\n");
        }
        if tabs && rng.chance(1, 6) {
            // "{" followed by whitespace is literal text (only generated where no other literal
            // precedes it on the line: the parser re-orders that case, which is C10's business)
            l.push_str(if rng.chance(2, 3) { "{\t" } else { "{ " });
        }
        if rng.chance(1, 10) {
            // an empty (or obs-only) line
            lines.push(l);
            continue;
        }
        if rng.chance(3, 4) {
            l.push_str(tag);
            if n_lines > 1 {
                l.push((b'a' + li as u8) as char);
            }
        }
        for _ in 0..rng.range(1, 3) {
            match rng.below(7) {
                0 | 1 => l.push_str(&styled(rng, "msg", st)),
                2 => l.push_str(&styled(rng, "prefix", st)),
                3 => l.push_str(&styled(rng, "pos", st)),
                4 => l.push_str(&styled(rng, "len", st)),
                // (tab flavour: now and then an escaped brace, also right behind a tab)
                5 if tabs && rng.chance(1, 3) => l.push_str(*rng.pick(&["\t{{", "{{", "}}", "\tb{{x}}", "{{\t}}"])),
                5 => l.push_str(if tabs { "\t" } else { ":" }),
                _ => l.push_str(*rng.pick(&[" ", "|", "-", "é", "\x1b[1m", "[]"])),
            }
        }
        lines.push(l);
    }
    lines.join("\n")
}

pub fn gen_tabbed(rng: &mut Rng, tag: &str) -> String {
    let mut s = String::from(tag);
    for _ in 0..rng.below(6) {
        match rng.below(3) {
            0 => s.push('\t'),
            1 => s.push((b'a' + rng.below(26) as u8) as char),
            _ => s.push_str("x\ty"),
        }
    }
    s
}

/// clock gaps: 0 bursts, around the refresh interval, seconds, hours
pub fn gen_gap(rng: &mut Rng, hz: u64) -> u64 {
    let interval = if hz > 0 { 1_000_000_000 / hz } else { 50_000_000 };
    match rng.below(12) {
        0..=3 => 0,
        4 => 1,
        5 => rng.below(1_000_000),
        6 => interval.saturating_sub(1),
        7 => interval,
        8 => interval + 1,
        9 => rng.below(3) * interval + rng.below(1000),
        10 => rng.range(1, 5) * 1_000_000_000,
        _ => 3_600_000_000_000,
    }
}
