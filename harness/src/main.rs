mod c02s;
mod c03s;
mod c16s;
mod c05;
mod c06;
mod c07;
mod c08;
mod c09;
mod c11;
mod c17;
mod c18;
mod gen;
mod model;
mod stage;
mod stories;
mod termchecks;
mod simio;
mod common;
mod engine;
mod scenario;
mod simterm;

use engine::{Check, Tier};

fn all_checks() -> Vec<&'static dyn Check> {
    vec![
        &termchecks::TermCheck(termchecks::Flavor::C01),
        &termchecks::TermCheck(termchecks::Flavor::C02),
        &termchecks::TermCheck(termchecks::Flavor::C03),
        &termchecks::TermCheck(termchecks::Flavor::C04),
        &c05::C05,
        &c06::C06,
        &c07::C07,
        &c08::C08,
        &c09::C09,
        &c11::C11,
        &termchecks::TermCheck(termchecks::Flavor::C16),
        &c17::C17,
        &c18::C18,
        &termchecks::TermCheck(termchecks::Flavor::C19),
    ]
}

fn usage() -> ! {
    eprintln!("usage: verif <C01..C19> quick|thorough | verif replay <file> | verif determinism <id> <n> | verif list");
    std::process::exit(2);
}

fn main() {
    common::install_quiet_panic_hook();
    // colours are ON in every run: styled template keys (`{msg:.green}`) then really emit SGR
    // sequences (the simulated terminal ignores them, the row arithmetic must not count them)
    console::set_colors_enabled(true);
    console::set_colors_enabled_stderr(true);
    let args: Vec<String> = std::env::args().skip(1).collect();
    if args.is_empty() {
        usage();
    }
    let checks = all_checks();
    match args[0].as_str() {
        "list" => {
            for c in &checks {
                println!("{}", c.id());
            }
        }
        "replay" => {
            if args.len() < 2 {
                usage();
            }
            std::process::exit(engine::replay_file(&checks, &args[1]));
        }
        "exec-child" => {
            // one scenario from stdin, its report to stdout (C18: histories that run in a process
            // whose standard error cannot be written)
            let id = args.get(1).cloned().unwrap_or_default();
            let c = checks.iter().find(|c| c.id() == id).unwrap_or_else(|| usage());
            std::process::exit(c18::child_main(*c));
        }
        "determinism" => {
            // prints one line per scenario: index, trace hash — diffed by selftest scripts
            let id = args.get(1).cloned().unwrap_or_default();
            let n: u64 = args.get(2).and_then(|s| s.parse().ok()).unwrap_or(200);
            let tier = if args.get(3).map(|s| s.as_str()) == Some("thorough") {
                Tier::Thorough
            } else {
                Tier::Quick
            };
            let c = checks.iter().find(|c| c.id() == id).unwrap_or_else(|| usage());
            for (i, h, v) in engine::trace_hashes(*c, tier, n) {
                println!("{i} {h:016x} {}", v as u8);
            }
        }
        id => {
            let tier = match args.get(1).map(|s| s.as_str()).or(std::env::var("VERIF_TIER").ok().as_deref()) {
                Some("thorough") => Tier::Thorough,
                _ => Tier::Quick,
            };
            let c = checks.iter().find(|c| c.id() == id).unwrap_or_else(|| usage());
            std::process::exit(engine::run_check(*c, tier));
        }
    }
}
