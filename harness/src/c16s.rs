//! C16, scheduled part: one thread sets texts with tabs (message, prefix), another changes the
//! tab width, a third keeps drawing, all on clones of one bar under the seeded scheduler. Whatever
//! the interleaving, afterwards message()/prefix() and the painted frame are the last texts
//! expanded with the last tab width, and no TAB ever reached the terminal.
//!
//! (On the unchanged tree every one of these calls holds the bar's lock from reading the tab width
//! to storing the expanded text, so the outcome does not depend on the schedule.)

use indicatif::{ProgressBar, ProgressDrawTarget, ProgressStyle};
use verif_simrt::rng::Rng;
use verif_simrt::{sched, World};

use crate::c07::{finish_report, gen_sched_cfg, sched_config};
use crate::common::call;
use crate::engine::Tier;
use crate::scenario::{Op, Report, Scenario};
use crate::simterm::SimTerm;

const WIDTHS: [usize; 8] = [0, 1, 2, 4, 8, 13, 33, 70];

fn expand(s: &str, w: usize) -> String {
    s.replace('\t', &" ".repeat(w))
}

pub fn exec_sched(sc: &Scenario) -> Report {
    let sc2 = sc.clone();
    let mut cfg = sched_config(sc);
    cfg.step_cap = 100_000;
    let (res, out) = World::run(cfg, move || {
        let sc = sc2;
        let mut r = Report::default();
        sched::name_current_thread("user-0");
        let term = SimTerm::new(3000, 20);
        let pb = ProgressBar::with_draw_target(Some(10), ProgressDrawTarget::term_like(Box::new(term.clone())));
        pb.set_style(ProgressStyle::with_template("{prefix}|{msg}|{pos}").unwrap());
        let (mut last_msg, mut last_prefix, mut last_w) = (String::new(), String::new(), 8usize);
        let mut handles = vec![];
        for (ti, ops) in sc.threads.iter().enumerate() {
            for op in ops {
                match op.k.as_str() {
                    "set_message" => last_msg = op.s0().to_string(),
                    "set_prefix" => last_prefix = op.s0().to_string(),
                    "set_tab_width" => last_w = WIDTHS[(op.n0() as usize) % WIDTHS.len()],
                    _ => {}
                }
            }
            let (h, ops) = (pb.clone(), ops.clone());
            handles.push(verif_simrt::thread::spawn_named(&format!("user-{}", ti + 1), move || {
                for op in ops.iter() {
                    let _ = call(|| match op.k.as_str() {
                        "set_message" => h.set_message(op.s0().to_string()),
                        "set_prefix" => h.set_prefix(op.s0().to_string()),
                        "set_tab_width" => h.set_tab_width(WIDTHS[(op.n0() as usize) % WIDTHS.len()]),
                        "tick" => h.tick(),
                        "inc" => h.inc(1),
                        "yield" => sched::yield_now(),
                        _ => {}
                    });
                }
            }));
        }
        for h in handles {
            if let Err(p) = h.join() {
                r.violate("C16.no_panic", format!("a thread panicked: {}", sched::panic_message(&p)));
            }
        }
        pb.force_draw();
        let (want_m, want_p) = (expand(&last_msg, last_w), expand(&last_prefix, last_w));
        let (m, p) = (pb.message(), pb.prefix());
        if m != want_m || p != want_p {
            r.violate(
                "C16.getter_expansion",
                format!(
                    "after all threads finished: message() = {m:?}, prefix() = {p:?}; the last texts {last_msg:?} / {last_prefix:?} expanded with the last tab width {last_w} are {want_m:?} / {want_p:?}"
                ),
            );
        }
        if let Some(t) = term.lock().tab_seen.clone() {
            r.violate("C16.tab_reached_terminal", format!("a TAB reached the terminal: {t:?}"));
        }
        if r.violation.is_none() {
            let fin = term.transcript();
            let want = format!("{want_p}|{want_m}|{}", pb.position());
            let want = want.trim_end_matches(' ').to_string();
            if fin.last() != Some(&want) {
                r.violate("C16.transcript", format!("the last frame shows {:?}, expected {want:?}", fin.last()));
            }
        }
        r.nontrivial = sc.threads.len() >= 2;
        r.probe("sched_runs");
        drop(pb);
        r
    });
    let mut rep = finish_report(res, out);
    if let Some((rule, d)) = &rep.violation {
        if rule == "deadlock" {
            rep.violation = Some(("C16.deadlock".into(), d.clone()));
        }
    }
    rep
}

pub fn gen_sched(rng: &mut Rng, tier: Tier) -> Scenario {
    let mut sc = Scenario::new("C16", "sched", rng.next_u64());
    gen_sched_cfg(&mut sc, rng, 60);
    sc.set("spurious_pm", 0);
    let n = if tier == Tier::Quick { 4 } else { 8 };
    let text = |rng: &mut Rng, tag: &str| -> String {
        let mut s = String::from(tag);
        for _ in 0..rng.range(1, 3) {
            s.push_str(*rng.pick(&["\t", "x", "\ty", "z\t"]));
        }
        s
    };
    // thread 1: texts; thread 2: tab widths; thread 3 (optional): draws
    let mut a = vec![];
    for k in 0..rng.range(1, n) {
        a.push(if rng.chance(2, 3) {
            Op::new("set_message").s(text(rng, &format!("m{k}")))
        } else {
            Op::new("set_prefix").s(text(rng, &format!("p{k}")))
        });
    }
    let mut b = vec![];
    for _ in 0..rng.range(1, n) {
        b.push(if rng.chance(1, 5) { Op::new("yield") } else { Op::new("set_tab_width").n(rng.below(8)) });
    }
    let mut threads = vec![a, b];
    if rng.chance(1, 2) {
        let mut c = vec![];
        for _ in 0..rng.range(1, n) {
            c.push(Op::new(*rng.pick(&["tick", "inc", "yield"])));
        }
        threads.push(c);
    }
    sc.threads = threads;
    sc
}
