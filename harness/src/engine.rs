//! Property independent engine: seeded batch search over scenarios on all cores, known-finding
//! filtering, minimisation, replay files, evidence.

use std::collections::{BTreeMap, BTreeSet, HashSet};
use std::sync::atomic::{AtomicBool, AtomicU64, Ordering};
use std::sync::Mutex;
use std::time::{Duration, Instant};

use serde_json::{json, Value};
use verif_simrt::rng::{mix, Rng};

use crate::scenario::{Report, Scenario};

#[derive(Clone, Copy, Debug, PartialEq, Eq)]
pub enum Tier {
    Quick,
    Thorough,
}

impl Tier {
    pub fn name(&self) -> &'static str {
        match self {
            Tier::Quick => "quick",
            Tier::Thorough => "thorough",
        }
    }
}

pub struct Budget {
    pub runs: u64,
    pub wall_s: u64,
}

pub trait Check: Sync {
    fn id(&self) -> &'static str;
    fn level(&self) -> &'static str {
        "exploration"
    }
    /// how cases are generated and what makes one non-trivial / distinct
    fn rule_text(&self) -> String;
    fn assumptions(&self) -> Vec<String>;
    fn budget(&self, tier: Tier) -> Budget;
    /// hand written regression stories, always executed first
    fn corpus(&self) -> Vec<Scenario> {
        vec![]
    }
    fn gen(&self, rng: &mut Rng, tier: Tier, index: u64) -> Scenario;
    fn exec(&self, sc: &Scenario) -> Report;
    /// If (rule, scenario) matches the predicate of a known finding, return that finding's id.
    fn known(&self, _rule: &str, _sc: &Scenario, _detail: &str) -> Option<&'static str> {
        None
    }
    /// cfg keys the minimiser may try to lower, with their minimum
    fn shrink_cfg(&self) -> Vec<(&'static str, u64)> {
        vec![]
    }
    /// extra, check specific evidence (real vs stub, etc.)
    fn extra_evidence(&self) -> Value {
        json!({})
    }
}

pub const COMPONENTS: &str = "REAL: indicatif draw_target.rs, state.rs, multi.rs, progress_bar.rs, style.rs, format.rs, iter.rs, rayon.rs (wrappers), term_like.rs built from /repo's working tree with --cfg indicatif_verif; console (width measurement, ANSI stripping); std Mutex/RwLock data+poisoning, Arc/Weak/OnceLock. STUB: terminal (SimTerm grid + scrollback), clock (virtual), lock waiting/condvars/thread scheduling (verif_simrt seeded scheduler), rayon pool (seeded split driver over the real plumbing traits), tokio runtime (hand polling with a no-op waker), OS tty";

pub fn base_seed() -> u64 {
    std::env::var("VERIF_SEED")
        .ok()
        .and_then(|s| s.trim().parse::<u64>().ok())
        .unwrap_or(1)
}

fn prop_hash(id: &str) -> u64 {
    let mut h: u64 = 0xcbf2_9ce4_8422_2325;
    for b in id.bytes() {
        h ^= b as u64;
        h = h.wrapping_mul(0x0000_0100_0000_01B3);
    }
    h
}

pub fn verif_dir() -> std::path::PathBuf {
    if let Ok(d) = std::env::var("VERIF_DIR") {
        return d.into();
    }
    // binary lives in <verif>/target/release/verif
    let exe = std::env::current_exe().unwrap_or_else(|_| "/verif/target/release/verif".into());
    exe.parent()
        .and_then(|p| p.parent())
        .and_then(|p| p.parent())
        .map(|p| p.to_path_buf())
        .unwrap_or_else(|| "/verif".into())
}

#[derive(Clone, Debug)]
pub struct KnownFindings {
    pub open: BTreeMap<String, (String, String)>, // id -> (property, what)
}

pub fn load_known_findings() -> KnownFindings {
    let p = verif_dir().join("known-findings.json");
    let mut open = BTreeMap::new();
    if let Ok(s) = std::fs::read_to_string(&p) {
        if let Ok(v) = serde_json::from_str::<Value>(&s) {
            if let Some(a) = v.get("open").and_then(|x| x.as_array()) {
                for e in a {
                    if let (Some(id), Some(prop), Some(what)) = (
                        e.get("id").and_then(|x| x.as_str()),
                        e.get("property").and_then(|x| x.as_str()),
                        e.get("what").and_then(|x| x.as_str()),
                    ) {
                        open.insert(id.to_string(), (prop.to_string(), what.to_string()));
                    }
                }
            }
        }
    }
    KnownFindings { open }
}

struct Agg {
    evaluations: u64,
    sub_runs: u64,
    nontrivial_hashes: HashSet<u64>,
    interleavings: HashSet<u64>,
    inconclusive: u64,
    sim_ns: u128,
    steps: u64,
    context_switches: u64,
    multi_enabled_points: u64,
    faults: BTreeMap<String, u64>,
    probes: BTreeMap<String, u64>,
    samples: Vec<Value>,
    violations: Vec<(u64, Scenario, String, String, Vec<u32>)>, // (index, scenario, rule, detail, schedule)
    known_hits: BTreeMap<String, u64>,
    harness_errors: Vec<(u64, String)>,
    modes: BTreeMap<String, u64>,
}

pub fn exec_guarded(check: &dyn Check, sc: &Scenario) -> Report {
    match std::panic::catch_unwind(std::panic::AssertUnwindSafe(|| check.exec(sc))) {
        Ok(r) => r,
        Err(p) => {
            let mut r = Report::default();
            r.harness_error = Some(format!(
                "harness panic: {}",
                verif_simrt::sched::panic_message(&p)
            ));
            r
        }
    }
}

pub fn run_check(check: &dyn Check, tier: Tier) -> i32 {
    let t0 = Instant::now();
    let seed = base_seed();
    let id = check.id();
    println!("[{id}] tier={} VERIF_SEED={seed}", tier.name());
    let mut kf = load_known_findings();
    if std::env::var_os("VERIF_IGNORE_KNOWN").is_some() {
        // experiments only: report known findings as violations
        kf.open.clear();
    }
    let budget = check.budget(tier);
    let scale: f64 = std::env::var("VERIF_SCALE")
        .ok()
        .and_then(|s| s.parse().ok())
        .unwrap_or(1.0);
    let runs = ((budget.runs as f64) * scale) as u64;
    let deadline = t0 + Duration::from_secs(budget.wall_s);
    let workers: usize = std::env::var("VERIF_WORKERS")
        .ok()
        .and_then(|s| s.parse().ok())
        .unwrap_or_else(|| {
            std::thread::available_parallelism()
                .map(|n| n.get())
                .unwrap_or(8)
        });

    let agg = Mutex::new(Agg {
        evaluations: 0,
        sub_runs: 0,
        nontrivial_hashes: HashSet::new(),
        interleavings: HashSet::new(),
        inconclusive: 0,
        sim_ns: 0,
        steps: 0,
        context_switches: 0,
        multi_enabled_points: 0,
        faults: BTreeMap::new(),
        probes: BTreeMap::new(),
        samples: vec![],
        violations: vec![],
        known_hits: BTreeMap::new(),
        harness_errors: vec![],
        modes: BTreeMap::new(),
    });

    // VERIF_NO_CORPUS=1: seeded search only (used to measure what the search finds by itself)
    let corpus = if std::env::var_os("VERIF_NO_CORPUS").is_some() { vec![] } else { check.corpus() };
    let n_corpus = corpus.len() as u64;
    let next = AtomicU64::new(0);
    let stop = AtomicBool::new(false);
    let wall_capped = AtomicBool::new(false);
    let total = n_corpus + runs;

    let absorb = |idx: u64, sc: &Scenario, rep: Report| {
        let sc_hash = if rep.nontrivial { sc.hash() } else { 0 };
        let mut a = agg.lock().unwrap();
        a.evaluations += 1;
        a.sub_runs += rep.sub_runs.max(1);
        *a.modes.entry(sc.mode.clone()).or_insert(0) += 1;
        if rep.nontrivial {
            a.nontrivial_hashes.insert(sc_hash);
        }
        if rep.multi_enabled_points > 0 {
            a.interleavings.insert(rep.interleaving_sig);
        }
        if rep.inconclusive {
            a.inconclusive += 1;
        }
        a.sim_ns += rep.sim_ns as u128;
        a.steps += rep.steps;
        a.context_switches += rep.context_switches;
        a.multi_enabled_points += rep.multi_enabled_points;
        for (k, v) in &rep.faults {
            let e = a.faults.entry(k.clone()).or_insert(0);
            *e = e.saturating_add(*v);
        }
        for (k, v) in &rep.probes {
            let e = a.probes.entry(k.clone()).or_insert(0);
            *e = e.saturating_add(*v);
        }
        if a.samples.len() < 4 && rep.nontrivial && (idx >= n_corpus || a.samples.is_empty()) {
            a.samples.push(sc.short());
        }
        if let Some(e) = rep.harness_error {
            a.harness_errors.push((idx, format!("{e}; scenario={}", sc.to_json())));
            stop.store(true, Ordering::SeqCst);
        } else if let Some((rule, detail)) = rep.violation {
            match check.known(&rule, sc, &detail) {
                Some(fid) if kf.open.contains_key(fid) => {
                    *a.known_hits.entry(fid.to_string()).or_insert(0) += 1;
                }
                _ => {
                    a.violations
                        .push((idx, sc.clone(), rule, detail, rep.schedule.clone()));
                    if a.violations.len() >= 8 {
                        stop.store(true, Ordering::SeqCst);
                    }
                }
            }
        }
    };

    // watchdog: a scenario that blocks in a real system call (a pty, a file) would hang the
    // whole check; no scenario takes anywhere near this long
    let finished = AtomicBool::new(false);
    let progress = AtomicU64::new(0);
    let workers_done = AtomicU64::new(0);
    std::thread::scope(|s| {
        s.spawn(|| {
            let mut last = (0u64, Instant::now());
            while !finished.load(Ordering::SeqCst) {
                std::thread::sleep(std::time::Duration::from_millis(250));
                let p = progress.load(Ordering::SeqCst);
                if p != last.0 {
                    last = (p, Instant::now());
                } else if last.1.elapsed().as_secs() > 300 {
                    eprintln!("[{id}] HARNESS ERROR: no scenario finished for 300 s (a scenario blocks in a system call?)");
                    std::process::exit(2);
                }
            }
        });
        for _ in 0..workers {
            s.spawn(|| loop {
                let quit = |done: &AtomicU64| {
                    if done.fetch_add(1, Ordering::SeqCst) + 1 == workers as u64 {
                        finished.store(true, Ordering::SeqCst);
                    }
                };
                if stop.load(Ordering::SeqCst) {
                    quit(&workers_done);
                    break;
                }
                progress.fetch_add(1, Ordering::SeqCst);
                let i = next.fetch_add(1, Ordering::SeqCst);
                if i >= total {
                    quit(&workers_done);
                    break;
                }
                if Instant::now() > deadline {
                    wall_capped.store(true, Ordering::SeqCst);
                    quit(&workers_done);
                    break;
                }
                let sc = if i < n_corpus {
                    corpus[i as usize].clone()
                } else {
                    let idx = i - n_corpus;
                    let mut rng = Rng::new(mix(&[seed, prop_hash(id), idx]));
                    check.gen(&mut rng, tier, idx)
                };
                let rep = exec_guarded(check, &sc);
                absorb(i, &sc, rep);
            });
        }
    });

    let mut a = agg.into_inner().unwrap();
    let wall_search = t0.elapsed().as_secs_f64();

    // ---- harness errors: exit 2, never a VIOLATION line
    if !a.harness_errors.is_empty() {
        a.harness_errors.sort();
        let (idx, e) = &a.harness_errors[0];
        eprintln!("[{id}] HARNESS ERROR at run {idx}: {e}");
        write_evidence(check, tier, seed, &a, t0, 0, wall_capped.load(Ordering::SeqCst), Some(e.clone()));
        return 2;
    }

    for (fid, n) in &a.known_hits {
        let what = kf.open.get(fid).map(|x| x.1.clone()).unwrap_or_default();
        println!("KNOWN-FINDING: property={id} {fid} {what} (matched {n} runs)");
    }

    let mut exit = 0;
    let mut n_viol = 0;
    if !a.violations.is_empty() {
        a.violations.sort_by_key(|v| v.0);
        // report distinct rules (at most 3), each minimised
        let mut seen_rules = BTreeSet::new();
        let viols = std::mem::take(&mut a.violations);
        for (idx, sc, rule, detail, schedule) in viols {
            if !seen_rules.insert(rule.clone()) || seen_rules.len() > 3 {
                continue;
            }
            println!("[{id}] violation of rule {rule} at run {idx}: {detail}");
            let (min_sc, min_detail, attempts) = minimise(check, &kf, &sc, &rule, &detail, schedule);
            println!(
                "[{id}] minimised in {attempts} attempts to {} ops / {} threads: {}",
                min_sc.n_ops(),
                min_sc.threads.len(),
                min_detail
            );
            let path = write_replay(id, &min_sc, &rule, &min_detail, Some(&sc));
            // confirm in a fresh process
            match confirm_replay(&path) {
                Ok(true) => {
                    println!("VIOLATION property={id} replay={}", path.display());
                    n_viol += 1;
                    exit = 1;
                }
                Ok(false) => {
                    eprintln!("[{id}] HARNESS ERROR: replay {} did not reproduce in a fresh process", path.display());
                    write_evidence(check, tier, seed, &a, t0, 0, false, Some("non-reproducing failure".into()));
                    return 2;
                }
                Err(e) => {
                    eprintln!("[{id}] HARNESS ERROR: cannot run replay: {e}");
                    return 2;
                }
            }
        }
    }

    write_evidence(check, tier, seed, &a, t0, n_viol, wall_capped.load(Ordering::SeqCst), None);
    println!(
        "[{id}] {} scenarios ({} executions) in {:.1}s search / {:.1}s total, {} distinct non-trivial, {} inconclusive, violations={}",
        a.evaluations,
        a.sub_runs,
        wall_search,
        t0.elapsed().as_secs_f64(),
        a.nontrivial_hashes.len(),
        a.inconclusive,
        n_viol
    );
    exit
}

fn write_evidence(
    check: &dyn Check,
    tier: Tier,
    seed: u64,
    a: &Agg,
    t0: Instant,
    violations: u64,
    wall_capped: bool,
    harness_error: Option<String>,
) {
    let wall = t0.elapsed().as_secs_f64();
    let per_hour = if wall > 0.0 {
        (a.sub_runs as f64 / wall * 3600.0) as u64
    } else {
        0
    };
    let mut coverage = json!({
        "evaluations": a.evaluations,
        "executions_including_sub_runs": a.sub_runs,
        "distinct_nontrivial": a.nontrivial_hashes.len(),
        "rule": check.rule_text(),
        "samples": a.samples,
        "workload_modes": a.modes,
        "simulated_runs_per_hour": per_hour,
        "simulated_time_covered_s": (a.sim_ns / 1_000_000) as f64 / 1000.0,
        "scheduling_points": a.steps,
        "context_switches": a.context_switches,
        "scheduling_points_with_choice": a.multi_enabled_points,
        "distinct_interleavings": a.interleavings.len(),
        "distinct_interleavings_measure": "FNV-1a hash of the sequence (thread, operation kind, resource) over every scheduling decision, lock release, notify, spawn, exit and timer jump of a run; counted only for runs in which at least one scheduling point had more than one enabled thread",
        "faults_fired": a.faults,
        "probes": a.probes,
        "inconclusive_runs": a.inconclusive,
        "known_finding_matches": a.known_hits,
        "wall_capped": wall_capped,
        "components": COMPONENTS,
        "exhaustive": false,
    });
    if let (Some(c), Value::Object(extra)) = (coverage.as_object_mut(), check.extra_evidence()) {
        for (k, v) in extra {
            c.insert(k, v);
        }
    }
    if let Some(e) = harness_error {
        coverage
            .as_object_mut()
            .unwrap()
            .insert("harness_error".into(), json!(e));
    }
    let ev = json!({
        "property_id": check.id(),
        "tier": tier.name(),
        "seed": seed,
        "level": check.level(),
        "coverage": coverage,
        "assumptions": check.assumptions(),
        "wall_s": wall,
        "violations": violations,
    });
    let dir = verif_dir().join("evidence");
    let _ = std::fs::create_dir_all(&dir);
    let path = dir.join(format!("{}.json", check.id()));
    let tmp = dir.join(format!("{}.json.tmp", check.id()));
    let _ = std::fs::write(&tmp, serde_json::to_string_pretty(&ev).unwrap() + "\n");
    let _ = std::fs::rename(&tmp, &path);
}

pub fn write_replay(
    id: &str,
    sc: &Scenario,
    rule: &str,
    detail: &str,
    original: Option<&Scenario>,
) -> std::path::PathBuf {
    let dir = verif_dir().join("replays");
    let _ = std::fs::create_dir_all(&dir);
    let path = dir.join(format!("{id}-{}-{:016x}.json", sc.seed, sc.hash()));
    let v = json!({
        "property": id,
        "rule": rule,
        "detail": detail,
        "scenario": sc.to_json(),
        "readable": sc.short(),
        "original_scenario": original.map(|o| o.to_json()),
    });
    let _ = std::fs::write(&path, serde_json::to_string_pretty(&v).unwrap() + "\n");
    path
}

fn confirm_replay(path: &std::path::Path) -> Result<bool, String> {
    let exe = std::env::current_exe().map_err(|e| e.to_string())?;
    let out = std::process::Command::new(exe)
        .arg("replay")
        .arg(path)
        .env("VERIF_REPLAY_CONFIRM", "1")
        .output()
        .map_err(|e| e.to_string())?;
    Ok(out.status.code() == Some(1))
}

/// Re-execute a replay file. Exit 1 + VIOLATION line when the recorded violation reproduces.
pub fn replay_file(checks: &[&dyn Check], path: &str) -> i32 {
    let s = match std::fs::read_to_string(path) {
        Ok(s) => s,
        Err(e) => {
            eprintln!("cannot read {path}: {e}");
            return 2;
        }
    };
    let v: Value = match serde_json::from_str(&s) {
        Ok(v) => v,
        Err(e) => {
            eprintln!("cannot parse {path}: {e}");
            return 2;
        }
    };
    let sc = match v.get("scenario").and_then(Scenario::from_json) {
        Some(sc) => sc,
        None => {
            eprintln!("no scenario in {path}");
            return 2;
        }
    };
    let rule = v.get("rule").and_then(|x| x.as_str()).unwrap_or("").to_string();
    let check = match checks.iter().find(|c| c.id() == sc.prop) {
        Some(c) => *c,
        None => {
            eprintln!("unknown property {}", sc.prop);
            return 2;
        }
    };
    let rep = exec_guarded(check, &sc);
    if let Some(e) = rep.harness_error {
        eprintln!("HARNESS ERROR during replay: {e}");
        return 2;
    }
    match rep.violation {
        Some((r, d)) if rule.is_empty() || r == rule => {
            println!("replayed {path}: rule {r}: {d}");
            println!("VIOLATION property={} replay={path}", sc.prop);
            1
        }
        Some((r, d)) => {
            println!("replayed {path}: DIFFERENT rule {r} (recorded {rule}): {d}");
            println!("VIOLATION property={} replay={path}", sc.prop);
            1
        }
        None => {
            println!("replayed {path}: no violation (recorded rule {rule})");
            0
        }
    }
}

// ------------------------------------------------------------------------------------------
// Minimiser
// ------------------------------------------------------------------------------------------

fn still_fails(
    check: &dyn Check,
    kf: &KnownFindings,
    sc: &Scenario,
    rule: &str,
    attempts: &mut u64,
) -> Option<(String, Vec<u32>)> {
    *attempts += 1;
    let rep = exec_guarded(check, sc);
    if rep.harness_error.is_some() {
        return None;
    }
    match rep.violation {
        Some((r, d)) if r == rule => {
            // do not shrink into a known finding
            if let Some(fid) = check.known(&r, sc, &d) {
                if kf.open.contains_key(fid) {
                    return None;
                }
            }
            Some((d, rep.schedule))
        }
        _ => None,
    }
}

pub fn minimise(
    check: &dyn Check,
    kf: &KnownFindings,
    sc0: &Scenario,
    rule: &str,
    detail0: &str,
    _schedule0: Vec<u32>,
) -> (Scenario, String, u64) {
    let max_attempts: u64 = std::env::var("VERIF_MIN_ATTEMPTS")
        .ok()
        .and_then(|s| s.parse().ok())
        .unwrap_or(1500);
    let t_end = Instant::now() + Duration::from_secs(90);
    let mut attempts = 0u64;
    let mut best = sc0.clone();
    let mut detail = detail0.to_string();
    let budget_ok = |attempts: &u64| *attempts < max_attempts && Instant::now() < t_end;

    let mut progress = true;
    let mut rounds = 0;
    while progress && rounds < 6 && budget_ok(&attempts) {
        progress = false;
        rounds += 1;
        // 1. drop whole threads (keep at least one)
        let mut t = 0;
        while best.threads.len() > 1 && t < best.threads.len() && budget_ok(&attempts) {
            let mut c = best.clone();
            c.threads[t].clear();
            // keep thread slots stable (thread index may be referenced) — only empty it
            if c != best {
                if let Some((d, _)) = still_fails(check, kf, &c, rule, &mut attempts) {
                    best = c;
                    detail = d;
                    progress = true;
                }
            }
            t += 1;
        }
        // 2. ddmin over ops of each thread
        for ti in 0..best.threads.len() {
            let mut chunk = (best.threads[ti].len() / 2).max(1);
            loop {
                let mut i = 0;
                while i < best.threads[ti].len() && budget_ok(&attempts) {
                    let mut c = best.clone();
                    let end = (i + chunk).min(c.threads[ti].len());
                    c.threads[ti].drain(i..end);
                    if let Some((d, _)) = still_fails(check, kf, &c, rule, &mut attempts) {
                        best = c;
                        detail = d;
                        progress = true;
                    } else {
                        i += chunk;
                    }
                }
                if chunk == 1 || !budget_ok(&attempts) {
                    break;
                }
                chunk = (chunk / 2).max(1);
            }
        }
        // 3. shrink cfg values
        for (key, min) in check.shrink_cfg() {
            let cur = best.c(key);
            for cand in [min, cur / 2, cur.saturating_sub(1)] {
                if cand < cur && cand >= min && budget_ok(&attempts) {
                    let mut c = best.clone();
                    c.set(key, cand);
                    if let Some((d, _)) = still_fails(check, kf, &c, rule, &mut attempts) {
                        best = c;
                        detail = d;
                        progress = true;
                        break;
                    }
                }
            }
        }
        // 4. shrink numeric and string arguments
        for ti in 0..best.threads.len() {
            for oi in 0..best.threads[ti].len() {
                for ni in 0..best.threads[ti][oi].n.len() {
                    let cur = best.threads[ti][oi].n[ni];
                    for cand in [0u64, 1, cur / 2] {
                        if cand < cur && budget_ok(&attempts) {
                            let mut c = best.clone();
                            c.threads[ti][oi].n[ni] = cand;
                            if let Some((d, _)) = still_fails(check, kf, &c, rule, &mut attempts) {
                                best = c;
                                detail = d;
                                progress = true;
                                break;
                            }
                        }
                    }
                }
                for si in 0..best.threads[ti][oi].s.len() {
                    let cur = best.threads[ti][oi].s[si].clone();
                    let chars: Vec<char> = cur.chars().collect();
                    if chars.is_empty() {
                        continue;
                    }
                    let cands: Vec<String> = vec![
                        String::new(),
                        chars[..chars.len() / 2].iter().collect(),
                        chars[chars.len() / 2..].iter().collect(),
                        chars[..chars.len() - 1].iter().collect(),
                        chars[1..].iter().collect(),
                    ];
                    for cand in cands {
                        if cand.len() < cur.len() && budget_ok(&attempts) {
                            let mut c = best.clone();
                            c.threads[ti][oi].s[si] = cand;
                            if let Some((d, _)) = still_fails(check, kf, &c, rule, &mut attempts) {
                                best = c;
                                detail = d;
                                progress = true;
                                break;
                            }
                        }
                    }
                }
            }
        }
    }

    // 5. schedule minimisation (multi-threaded scenarios only): pin the recorded schedule, then
    // prefer "keep running the same thread" from the end.
    if best.threads.len() > 1 || best.mode.contains("sched") {
        let rep = exec_guarded(check, &best);
        if let Some((r, _)) = &rep.violation {
            if r == rule && !rep.schedule.is_empty() {
                let mut c = best.clone();
                c.schedule = Some(rep.schedule.clone());
                if let Some((d, _)) = still_fails(check, kf, &c, rule, &mut attempts) {
                    best = c;
                    detail = d;
                    // truncate from the end (past the end = keep current thread)
                    let mut len = best.schedule.as_ref().unwrap().len();
                    let mut step = (len / 2).max(1);
                    while step >= 1 && budget_ok(&attempts) {
                        if len >= step {
                            let mut c = best.clone();
                            c.schedule.as_mut().unwrap().truncate(len - step);
                            if let Some((d, _)) = still_fails(check, kf, &c, rule, &mut attempts) {
                                best = c;
                                detail = d;
                                len -= step;
                                continue;
                            }
                        }
                        if step == 1 {
                            break;
                        }
                        step /= 2;
                    }
                    // replace choices by the previous choice (fewer context switches)
                    let n = best.schedule.as_ref().unwrap().len();
                    for i in (1..n).rev() {
                        if !budget_ok(&attempts) {
                            break;
                        }
                        let s = best.schedule.as_ref().unwrap();
                        if i < s.len() && s[i] != s[i - 1] {
                            let mut c = best.clone();
                            let prev = c.schedule.as_ref().unwrap()[i - 1];
                            c.schedule.as_mut().unwrap()[i] = prev;
                            if let Some((d, _)) = still_fails(check, kf, &c, rule, &mut attempts) {
                                best = c;
                                detail = d;
                            }
                        }
                    }
                }
            }
        }
    }
    (best, detail, attempts)
}

/// Determinism self-test: run scenarios twice (optionally in another process via hash dump).
pub fn trace_hashes(check: &dyn Check, tier: Tier, n: u64) -> Vec<(u64, u64, bool)> {
    let seed = base_seed();
    let id = check.id();
    let out = Mutex::new(vec![]);
    let next = AtomicU64::new(0);
    let workers: usize = std::env::var("VERIF_WORKERS")
        .ok()
        .and_then(|s| s.parse().ok())
        .unwrap_or(16);
    std::thread::scope(|s| {
        for _ in 0..workers {
            s.spawn(|| loop {
                let i = next.fetch_add(1, Ordering::SeqCst);
                if i >= n {
                    break;
                }
                let mut rng = Rng::new(mix(&[seed, prop_hash(id), i]));
                let sc = check.gen(&mut rng, tier, i);
                let rep = exec_guarded(check, &sc);
                let mut h = rep.trace_hash ^ sc.hash().rotate_left(3) ^ rep.steps.rotate_left(11) ^ rep.sim_ns.rotate_left(23);
                for (k, v) in &rep.probes {
                    h = h.rotate_left(5) ^ prop_hash(k) ^ *v;
                }
                for (k, v) in &rep.faults {
                    h = h.rotate_left(9) ^ prop_hash(k) ^ *v;
                }
                out.lock().unwrap().push((i, h, rep.violation.is_some() || rep.harness_error.is_some()));
            });
        }
    });
    let mut v = out.into_inner().unwrap();
    v.sort();
    v
}
