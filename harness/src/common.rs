//! Helpers shared by the checks.

use std::borrow::Cow;
use std::panic::{catch_unwind, AssertUnwindSafe};

use indicatif::{ProgressBar, ProgressFinish};

/// Run one public API call, converting a panic into Err(message).
pub fn call<R>(f: impl FnOnce() -> R) -> Result<R, String> {
    catch_unwind(AssertUnwindSafe(f)).map_err(|p| verif_simrt::sched::panic_message(&p))
}

pub fn install_quiet_panic_hook() {
    let default = std::panic::take_hook();
    std::panic::set_hook(Box::new(move |info| {
        if std::env::var_os("VERIF_LOUD_PANICS").is_some() {
            eprintln!("PANIC: {info}\n{}", std::backtrace::Backtrace::force_capture());
            return;
        }
        if verif_simrt::sched::in_world() || std::env::var_os("VERIF_QUIET_PANICS").is_some() {
            return;
        }
        default(info);
    }));
}

pub fn finish_kind(code: u64, msg: &str) -> ProgressFinish {
    match code % 5 {
        0 => ProgressFinish::AndLeave,
        1 => ProgressFinish::WithMessage(Cow::Owned(msg.to_string())),
        2 => ProgressFinish::AndClear,
        3 => ProgressFinish::Abandon,
        _ => ProgressFinish::AbandonWithMessage(Cow::Owned(msg.to_string())),
    }
}

/// Apply one of the explicit finishing calls: 0 finish, 1 finish_with_message, 2 finish_and_clear,
/// 3 abandon, 4 abandon_with_message
pub fn apply_finish(pb: &ProgressBar, code: u64, msg: &str) {
    match code % 5 {
        0 => pb.finish(),
        1 => pb.finish_with_message(msg.to_string()),
        2 => pb.finish_and_clear(),
        3 => pb.abandon(),
        _ => pb.abandon_with_message(msg.to_string()),
    }
}

pub const FINISH_NAMES: [&str; 5] = [
    "finish",
    "finish_with_message",
    "finish_and_clear",
    "abandon",
    "abandon_with_message",
];

/// Interesting u64 boundary values.
pub fn boundary_u64(rng: &mut verif_simrt::rng::Rng) -> u64 {
    const B: [u64; 16] = [
        0,
        1,
        2,
        3,
        10,
        u64::MAX,
        u64::MAX - 1,
        1 << 63,
        (1 << 63) - 1,
        (1 << 63) + 1,
        (1 << 24) - 1,
        1 << 24,
        (1 << 24) + 1,
        u32::MAX as u64,
        (u32::MAX as u64) + 1,
        1 << 53,
    ];
    match rng.below(10) {
        0..=5 => B[rng.usize_below(B.len())],
        6 | 7 => rng.below(1000),
        8 => rng.below(1 << 40),
        _ => rng.next_u64(),
    }
}
