//! Simulated I/O objects behind the adaptors' existing seams: one object implementing
//! Read/BufRead/Seek/Write, tokio AsyncRead/AsyncBufRead/AsyncWrite/AsyncSeek and a Stream /
//! Iterator source. Every call draws its behaviour (full, short, error kind, Pending, EOF) from
//! the object's own PRNG, so two objects created with the same seed and driven with the same
//! call sequence behave identically: one is wrapped in the progress bar, the other is the twin.

use std::io::{self, IoSlice, IoSliceMut, SeekFrom};
use std::pin::Pin;
use std::task::{Context, Poll};

use verif_simrt::rng::Rng;

#[derive(Clone, Debug, Default)]
pub struct IoStats {
    pub short: u64,
    pub full: u64,
    pub eof: u64,
    pub err_interrupted: u64,
    pub err_wouldblock: u64,
    pub err_other: u64,
    pub pending: u64,
    pub seek_err: u64,
    pub zero_write: u64,
    pub partial_then_error: u64,
}

#[derive(Debug)]
pub struct SimIo {
    pub data: Vec<u8>,
    pub pos: usize,
    /// bytes currently exposed by fill_buf and not yet consumed
    pub buffered: usize,
    pub rng: Rng,
    /// per-mille probabilities
    pub p_err: u64,
    pub p_short: u64,
    pub p_pending: u64,
    pub written: Vec<u8>,
    pub stats: IoStats,
    pub pending_streak: u32,
    pub seek_target: Option<io::Result<u64>>,
    pub log: Vec<String>,
    /// (pos, written) mirrored after every call so the harness can look inside a wrapped object
    pub mirror: std::sync::Arc<std::sync::Mutex<(usize, Vec<u8>)>>,
    /// false: a sink that only implements the scalar write; its vectored entry points behave like
    /// the provided defaults of std / tokio (first non-empty slice) and it says so
    pub vectored: bool,
}

impl SimIo {
    pub fn new(seed: u64, len: usize, p_err: u64, p_short: u64, p_pending: u64) -> SimIo {
        let mut r = Rng::new(seed ^ 0xD1CE);
        let data: Vec<u8> = (0..len).map(|i| b'a' + ((i as u64 + r.below(3)) % 26) as u8).collect();
        SimIo {
            data,
            pos: 0,
            buffered: 0,
            rng: Rng::new(seed),
            p_err,
            p_short,
            p_pending,
            written: vec![],
            stats: IoStats::default(),
            pending_streak: 0,
            seek_target: None,
            log: vec![],
            mirror: Default::default(),
            vectored: true,
        }
    }

    pub fn sync(&self) {
        let mut m = self.mirror.lock().unwrap();
        m.0 = self.pos;
        if m.1.len() != self.written.len() {
            m.1 = self.written.clone();
        }
    }

    fn remaining(&self) -> usize {
        self.data.len().saturating_sub(self.pos)
    }

    fn draw_err(&mut self) -> Option<io::Error> {
        if self.rng.below(1000) < self.p_err {
            Some(match self.rng.below(3) {
                0 => {
                    self.stats.err_interrupted += 1;
                    io::Error::new(io::ErrorKind::Interrupted, "sim EINTR")
                }
                1 => {
                    self.stats.err_wouldblock += 1;
                    io::Error::new(io::ErrorKind::WouldBlock, "sim EAGAIN")
                }
                _ => {
                    self.stats.err_other += 1;
                    io::Error::new(io::ErrorKind::Other, "sim EIO")
                }
            })
        } else {
            None
        }
    }

    /// how many bytes a transfer of at most `max` moves (max > 0)
    fn draw_amount(&mut self, max: usize) -> usize {
        if max > 1 && self.rng.below(1000) < self.p_short {
            self.stats.short += 1;
            1 + self.rng.usize_below(max - 1)
        } else {
            self.stats.full += 1;
            max
        }
    }

    fn draw_pending(&mut self) -> bool {
        if self.pending_streak < 3 && self.rng.below(1000) < self.p_pending {
            self.pending_streak += 1;
            self.stats.pending += 1;
            true
        } else {
            self.pending_streak = 0;
            false
        }
    }

    fn do_read(&mut self, cap: usize) -> io::Result<usize> {
        if cap == 0 {
            return Ok(0);
        }
        if self.buffered > 0 {
            let n = self.draw_amount(cap.min(self.buffered));
            self.pos += n;
            self.buffered -= n;
            return Ok(n);
        }
        if let Some(e) = self.draw_err() {
            return Err(e);
        }
        let rem = self.remaining();
        if rem == 0 {
            self.stats.eof += 1;
            return Ok(0);
        }
        let n = self.draw_amount(cap.min(rem));
        self.pos += n;
        Ok(n)
    }

    fn do_fill(&mut self) -> io::Result<usize> {
        if self.buffered == 0 {
            if let Some(e) = self.draw_err() {
                return Err(e);
            }
            let rem = self.remaining();
            if rem == 0 {
                self.stats.eof += 1;
            } else {
                let cap = 1 + self.rng.usize_below(16);
                self.buffered = self.draw_amount(cap.min(rem));
            }
        }
        Ok(self.buffered)
    }

    fn do_write(&mut self, len: usize) -> io::Result<usize> {
        if len == 0 {
            return Ok(0);
        }
        if let Some(e) = self.draw_err() {
            return Err(e);
        }
        if self.rng.below(1000) < self.p_err / 4 {
            self.stats.zero_write += 1;
            return Ok(0);
        }
        Ok(self.draw_amount(len))
    }

    fn do_seek(&mut self, f: SeekFrom) -> io::Result<u64> {
        if let Some(e) = self.draw_err() {
            self.stats.seek_err += 1;
            return Err(e);
        }
        let base: i128 = match f {
            SeekFrom::Start(o) => o as i128,
            SeekFrom::End(o) => self.data.len() as i128 + o as i128,
            SeekFrom::Current(o) => self.pos as i128 + o as i128,
        };
        if base < 0 || base > (1 << 40) {
            self.stats.seek_err += 1;
            return Err(io::Error::new(io::ErrorKind::InvalidInput, "sim: invalid seek"));
        }
        self.pos = base as usize;
        self.buffered = 0;
        Ok(base as u64)
    }
}

impl io::Read for SimIo {
    fn read(&mut self, buf: &mut [u8]) -> io::Result<usize> {
        let start = self.pos.min(self.data.len());
        let n = self.do_read(buf.len())?;
        buf[..n].copy_from_slice(&self.data[start..start + n]);
        self.sync();
        Ok(n)
    }
    fn read_vectored(&mut self, bufs: &mut [IoSliceMut<'_>]) -> io::Result<usize> {
        let cap: usize = bufs.iter().map(|b| b.len()).sum();
        let start = self.pos.min(self.data.len());
        let n = self.do_read(cap)?;
        let mut off = 0;
        for b in bufs.iter_mut() {
            if off >= n {
                break;
            }
            let k = b.len().min(n - off);
            b[..k].copy_from_slice(&self.data[start + off..start + off + k]);
            off += k;
        }
        self.sync();
        Ok(n)
    }
}

impl io::BufRead for SimIo {
    fn fill_buf(&mut self) -> io::Result<&[u8]> {
        let n = self.do_fill()?;
        let p = self.pos.min(self.data.len());
        Ok(&self.data[p..p + n])
    }
    fn consume(&mut self, amt: usize) {
        let amt = amt.min(self.buffered);
        self.pos += amt;
        self.buffered -= amt;
        self.sync();
    }
}

impl io::Seek for SimIo {
    fn seek(&mut self, f: SeekFrom) -> io::Result<u64> {
        let r = self.do_seek(f);
        self.sync();
        r
    }
}

impl io::Write for SimIo {
    fn write(&mut self, buf: &[u8]) -> io::Result<usize> {
        let n = self.do_write(buf.len())?;
        self.written.extend_from_slice(&buf[..n]);
        self.sync();
        Ok(n)
    }
    fn write_vectored(&mut self, bufs: &[IoSlice<'_>]) -> io::Result<usize> {
        if !self.vectored {
            let buf = bufs.iter().find(|b| !b.is_empty()).map_or(&[][..], |b| &**b);
            return io::Write::write(self, buf);
        }
        let total: usize = bufs.iter().map(|b| b.len()).sum();
        let n = self.do_write(total)?;
        let mut left = n;
        for b in bufs {
            let k = b.len().min(left);
            self.written.extend_from_slice(&b[..k]);
            left -= k;
            if left == 0 {
                break;
            }
        }
        self.sync();
        Ok(n)
    }
    fn flush(&mut self) -> io::Result<()> {
        match self.draw_err() {
            Some(e) => Err(e),
            None => Ok(()),
        }
    }
}

impl tokio::io::AsyncRead for SimIo {
    fn poll_read(
        mut self: Pin<&mut Self>,
        cx: &mut Context<'_>,
        buf: &mut tokio::io::ReadBuf<'_>,
    ) -> Poll<io::Result<()>> {
        if self.draw_pending() {
            cx.waker().wake_by_ref();
            return Poll::Pending;
        }
        let cap = buf.remaining();
        let start = self.pos.min(self.data.len());
        match self.do_read(cap) {
            Ok(n) => {
                let this = &*self;
                buf.put_slice(&this.data[start..start + n]);
                this.sync();
                Poll::Ready(Ok(()))
            }
            Err(e) => {
                // a source may have delivered part of the data when it hits the error (a decoding
                // reader, say): the bytes are in the caller's buffer all the same
                let rem = self.remaining().min(cap);
                if rem > 0 && self.buffered == 0 && self.rng.below(3) == 0 {
                    let n = 1 + self.rng.usize_below(rem);
                    let start = self.pos;
                    self.pos += n;
                    self.stats.partial_then_error += 1;
                    let this = &*self;
                    buf.put_slice(&this.data[start..start + n]);
                    this.sync();
                }
                Poll::Ready(Err(e))
            }
        }
    }
}

impl tokio::io::AsyncBufRead for SimIo {
    fn poll_fill_buf(self: Pin<&mut Self>, cx: &mut Context<'_>) -> Poll<io::Result<&[u8]>> {
        let this = self.get_mut();
        if this.draw_pending() {
            cx.waker().wake_by_ref();
            return Poll::Pending;
        }
        match this.do_fill() {
            Ok(n) => {
                let p = this.pos.min(this.data.len());
                Poll::Ready(Ok(&this.data[p..p + n]))
            }
            Err(e) => Poll::Ready(Err(e)),
        }
    }
    fn consume(mut self: Pin<&mut Self>, amt: usize) {
        let amt = amt.min(self.buffered);
        self.pos += amt;
        self.buffered -= amt;
        self.sync();
    }
}

impl tokio::io::AsyncWrite for SimIo {
    fn poll_write(mut self: Pin<&mut Self>, cx: &mut Context<'_>, buf: &[u8]) -> Poll<io::Result<usize>> {
        if self.draw_pending() {
            cx.waker().wake_by_ref();
            return Poll::Pending;
        }
        match self.do_write(buf.len()) {
            Ok(n) => {
                self.written.extend_from_slice(&buf[..n]);
                self.sync();
                Poll::Ready(Ok(n))
            }
            Err(e) => Poll::Ready(Err(e)),
        }
    }
    fn poll_write_vectored(mut self: Pin<&mut Self>, cx: &mut Context<'_>, bufs: &[IoSlice<'_>]) -> Poll<io::Result<usize>> {
        if !self.vectored {
            let buf = bufs.iter().find(|b| !b.is_empty()).map_or(&[][..], |b| &**b);
            return tokio::io::AsyncWrite::poll_write(self, cx, buf);
        }
        if self.draw_pending() {
            cx.waker().wake_by_ref();
            return Poll::Pending;
        }
        let total: usize = bufs.iter().map(|b| b.len()).sum();
        match self.do_write(total) {
            Ok(n) => {
                let mut left = n;
                for b in bufs {
                    let k = b.len().min(left);
                    self.written.extend_from_slice(&b[..k]);
                    left -= k;
                }
                self.sync();
                Poll::Ready(Ok(n))
            }
            Err(e) => Poll::Ready(Err(e)),
        }
    }
    fn is_write_vectored(&self) -> bool {
        self.vectored
    }
    fn poll_flush(mut self: Pin<&mut Self>, cx: &mut Context<'_>) -> Poll<io::Result<()>> {
        if self.draw_pending() {
            cx.waker().wake_by_ref();
            return Poll::Pending;
        }
        match self.draw_err() {
            Some(e) => Poll::Ready(Err(e)),
            None => Poll::Ready(Ok(())),
        }
    }
    fn poll_shutdown(mut self: Pin<&mut Self>, cx: &mut Context<'_>) -> Poll<io::Result<()>> {
        if self.draw_pending() {
            cx.waker().wake_by_ref();
            return Poll::Pending;
        }
        Poll::Ready(Ok(()))
    }
}

impl tokio::io::AsyncSeek for SimIo {
    fn start_seek(mut self: Pin<&mut Self>, position: SeekFrom) -> io::Result<()> {
        let r = self.do_seek(position);
        self.sync();
        self.seek_target = Some(r);
        Ok(())
    }
    fn poll_complete(mut self: Pin<&mut Self>, cx: &mut Context<'_>) -> Poll<io::Result<u64>> {
        if self.draw_pending() {
            cx.waker().wake_by_ref();
            return Poll::Pending;
        }
        match self.seek_target.take() {
            Some(r) => Poll::Ready(r),
            None => Poll::Ready(Ok(self.pos as u64)),
        }
    }
}

/// Item source for Iterator / DoubleEndedIterator / ExactSizeIterator / Stream.
#[derive(Clone, Debug)]
pub struct SimItems {
    pub items: std::collections::VecDeque<u32>,
    pub rng: Rng,
    pub p_pending: u64,
    pub pending_streak: u32,
    pub pendings: u64,
    pub none_polls: u64,
    /// a clone of the bar that wraps this source: when it runs dry the source itself reports
    /// the outcome (abandons the bar with a message), inside the very call that returns None
    pub on_dry: Option<indicatif::ProgressBar>,
}

impl SimItems {
    pub fn new(seed: u64, n: usize, p_pending: u64) -> SimItems {
        SimItems {
            items: (0..n as u32).map(|i| i * 7 + 3).collect(),
            rng: Rng::new(seed),
            p_pending,
            pending_streak: 0,
            pendings: 0,
            none_polls: 0,
            on_dry: None,
        }
    }
    pub fn with_on_dry(mut self, pb: indicatif::ProgressBar) -> SimItems {
        self.on_dry = Some(pb);
        self
    }
    fn ran_dry(&mut self) {
        self.none_polls += 1;
        if self.none_polls == 1 {
            if let Some(pb) = &self.on_dry {
                pb.abandon_with_message("inner");
            }
        }
    }
}

impl Iterator for SimItems {
    type Item = u32;
    fn next(&mut self) -> Option<u32> {
        let r = self.items.pop_front();
        if r.is_none() {
            self.ran_dry();
        }
        r
    }
    fn size_hint(&self) -> (usize, Option<usize>) {
        (self.items.len(), Some(self.items.len()))
    }
}
impl DoubleEndedIterator for SimItems {
    fn next_back(&mut self) -> Option<u32> {
        let r = self.items.pop_back();
        if r.is_none() {
            self.ran_dry();
        }
        r
    }
}
impl ExactSizeIterator for SimItems {}

impl futures_core::Stream for SimItems {
    type Item = u32;
    fn poll_next(mut self: Pin<&mut Self>, cx: &mut Context<'_>) -> Poll<Option<u32>> {
        if self.pending_streak < 3 && self.rng.below(1000) < self.p_pending {
            self.pending_streak += 1;
            self.pendings += 1;
            cx.waker().wake_by_ref();
            return Poll::Pending;
        }
        self.pending_streak = 0;
        let r = self.items.pop_front();
        if r.is_none() {
            self.ran_dry();
        }
        Poll::Ready(r)
    }
    fn size_hint(&self) -> (usize, Option<usize>) {
        (self.items.len(), Some(self.items.len()))
    }
}

/// A waker that counts wake-ups (no runtime: futures are polled by hand).
pub fn counting_waker() -> (std::task::Waker, std::sync::Arc<std::sync::atomic::AtomicU64>) {
    use std::sync::atomic::{AtomicU64, Ordering};
    use std::sync::Arc;
    use std::task::Wake;
    struct W(Arc<AtomicU64>);
    impl Wake for W {
        fn wake(self: Arc<Self>) {
            self.0.fetch_add(1, Ordering::SeqCst);
        }
        fn wake_by_ref(self: &Arc<Self>) {
            self.0.fetch_add(1, Ordering::SeqCst);
        }
    }
    let c = Arc::new(AtomicU64::new(0));
    (std::task::Waker::from(Arc::new(W(c.clone()))), c)
}
