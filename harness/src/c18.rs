//! C18 — terminal I/O failures never panic, poison or corrupt logical state.
//!
//! fault_enumeration: for each sampled history the fault-free run counts the terminal calls N;
//! then EVERY index k in 0..N is failed, once ("only call k fails"), persistently ("call k
//! and all later calls fail") and intermittently ("call k, then every later call with
//! probability 1/2"), with rotating error kinds, and the history is continued and
//! followed by an exercise of every bar, sibling and the MultiProgress.

use verif_simrt::rng::Rng;
use verif_simrt::World;

use crate::c07::{finish_report, sched_config};
use crate::common::call;
use crate::engine::{Budget, Check, Tier};
use crate::scenario::{Op, Report, Scenario};
use crate::simterm::FaultPlan;
use crate::stage::{Rules, Stage};
use crate::termchecks::{Flavor, TermCheck};

pub struct C18;

type Snap = Vec<(u64, Option<u64>, String, String, bool)>;

struct RunOut {
    report: Report,
    n_calls: u64,
    snaps: Vec<Snap>,
    failed_calls: u64,
    late_flush_idx: Vec<u64>,
}

fn snapshot(st: &Stage) -> Result<Snap, String> {
    call(|| {
        st.bars
            .iter()
            .filter_map(|s| s.handles.first())
            .map(|h| (h.position(), h.length(), h.message(), h.prefix(), h.is_finished()))
            .collect()
    })
}

fn run_once(sc: &Scenario, plan: Option<FaultPlan>, reference: Option<&Vec<Snap>>) -> RunOut {
    let sc2 = sc.clone();
    let reference = reference.cloned();
    let mut cfg = sched_config(sc);
    cfg.atomics_yield = false;
    let (res, out) = World::run(cfg, move || {
        let sc = sc2;
        let mut r = Report::default();
        let mut st = Stage::new(
            &sc,
            Rules {
                transcript: false,
                cursor: false,
                forced_paint: false,
                height_cut: true,
                prop: "C18",
            },
        );
        if let Some(p) = plan.clone() {
            st.term.set_fault(p);
        }
        let ops = sc.threads.first().cloned().unwrap_or_default();
        let mut snaps: Vec<Snap> = vec![];
        for (i, op) in ops.iter().enumerate() {
            // (only the calls made by this thread count for the result of its call: a steady
            // ticker may hit the fault in the middle of it)
            let me = verif_simrt::sched::tid().unwrap_or(usize::MAX);
            let failed0 = st.term.lock().failed_by_tid.get(&me).copied().unwrap_or(0);
            st.last_io_err = None;
            let res = st.exec(op, &mut r);
            let at = format!("op#{} {}", i + 1, op.short());
            if let Some(p) = res.panic {
                r.violate("C18.no_panic", format!("{at} panicked: {p}"));
                break;
            }
            if r.harness_error.is_some() {
                break;
            }
            let failed = st.term.lock().failed_by_tid.get(&me).copied().unwrap_or(0) - failed0;
            if let Some(is_err) = st.last_io_err {
                if is_err != (failed > 0) {
                    r.violate(
                        "C18.io_result",
                        format!("{at}: returned {} although {failed} terminal calls failed during it", if is_err { "Err" } else { "Ok" }),
                    );
                    break;
                }
            }
            match snapshot(&st) {
                Err(p) => {
                    r.violate("C18.poisoned", format!("getters after {at} panicked: {p}"));
                    break;
                }
                Ok(s) => {
                    if let Some(reference) = &reference {
                        if reference.get(i) != Some(&s) {
                            r.violate(
                                "C18.logical_state",
                                format!("after {at}: (position, length, message, prefix, finished) per bar = {s:?}, without the failure = {:?}", reference.get(i)),
                            );
                            break;
                        }
                    }
                    snaps.push(s);
                }
            }
        }
        // exercise everything once more: a poisoned lock shows here
        if r.violation.is_none() && r.harness_error.is_none() {
            let mut silenced = false;
            let ex = call(|| {
                for s in st.bars.iter() {
                    if let Some(h) = s.handles.first() {
                        h.tick();
                        h.inc(1);
                        let _ = (h.position(), h.length(), h.message(), h.is_finished(), h.eta(), h.per_sec());
                        h.println("x");
                        h.set_message("y");
                    }
                }
                if let Some(mp) = &st.mp {
                    let n0 = st.term.n_calls();
                    let _ = mp.println("z");
                    if st.term.n_calls() == n0 && !mp.is_hidden() {
                        silenced = true;
                    }
                    let _ = mp.clear();
                    let _ = mp.is_hidden();
                }
            });
            if silenced && r.violation.is_none() {
                r.violate(
                    "C18.keeps_working",
                    "after the history MultiProgress::println made no terminal call at all although the MultiProgress is not hidden: an earlier failure silenced the draw target for good".to_string(),
                );
            }
            if let Err(p) = ex {
                r.violate("C18.poisoned", format!("exercising the bars after the history panicked (poisoned lock?): {p}"));
            }
            let td = call(|| st.teardown());
            if let Err(p) = td {
                r.violate("C18.poisoned", format!("dropping the bars after the history panicked: {p}"));
            }
            if r.violation.is_some() {
                // whatever is left would panic again while being dropped (poisoned locks): leak it
                let n = st.term.lock().n_calls;
                let f = st.term.lock().failed_calls;
                std::mem::forget(st);
                return (r, n, snaps, f, vec![]);
            }
        } else {
            // leak rather than risk a double panic while unwinding through poisoned locks
            std::mem::forget(st);
            return (r, 0, snaps, 0, vec![]);
        }
        let t = st.term.lock();
        (r, t.n_calls, snaps, t.failed_calls, t.late_flush_idx.clone())
    });
    let (report, n_calls, snaps, failed_calls, late_flush_idx) = match res {
        Some((r, n, s, f, l)) => (Some(r), n, s, f, l),
        None => (None, 0, vec![], 0, vec![]),
    };
    let report = finish_report(report, out);
    RunOut {
        report,
        n_calls,
        snaps,
        failed_calls,
        late_flush_idx,
    }
}

/// Run the whole enumeration for this history in a child process (`verif exec-child C18`, the
/// scenario on its standard input, the report on its standard output) whose standard error is the
/// write end of a pipe nobody reads: every write to it fails with EPIPE.
fn exec_in_child(sc: &Scenario) -> Report {
    use std::io::Write;
    use std::os::fd::{FromRawFd, OwnedFd};
    use std::process::{Command, Stdio};
    let mut r = Report::default();
    let exe = match std::env::current_exe() {
        Ok(e) => e,
        Err(e) => {
            r.harness_error = Some(format!("current_exe: {e}"));
            return r;
        }
    };
    let mut fds = [0 as libc::c_int; 2];
    if unsafe { libc::pipe(fds.as_mut_ptr()) } != 0 {
        r.harness_error = Some("pipe() failed".into());
        return r;
    }
    unsafe { libc::close(fds[0]) };
    let broken = unsafe { OwnedFd::from_raw_fd(fds[1]) };
    let child = Command::new(exe)
        .args(["exec-child", "C18"])
        .env("VERIF_IN_CHILD", "1")
        .stdin(Stdio::piped())
        .stdout(Stdio::piped())
        .stderr(Stdio::from(broken))
        .spawn();
    let mut child = match child {
        Ok(c) => c,
        Err(e) => {
            r.harness_error = Some(format!("cannot start the child process: {e}"));
            return r;
        }
    };
    if let Some(mut si) = child.stdin.take() {
        let _ = si.write_all(sc.to_json().to_string().as_bytes());
    }
    let out = match child.wait_with_output() {
        Ok(o) => o,
        Err(e) => {
            r.harness_error = Some(format!("waiting for the child process: {e}"));
            return r;
        }
    };
    let text = String::from_utf8_lossy(&out.stdout);
    let parsed = text.lines().rev().find_map(|l| l.strip_prefix("CHILD-REPORT ")).and_then(|j| serde_json::from_str::<serde_json::Value>(j).ok());
    let Some(v) = parsed else {
        // no report: the process died (a panic inside a panic aborts, for instance)
        r.sub_runs = 1;
        r.violate(
            "C18.no_panic",
            format!("the process that ran this history with a standard error that cannot be written ended with {} and without a report", out.status),
        );
        return r;
    };
    if let Some(a) = v["violation"].as_array() {
        r.violate(a[0].as_str().unwrap_or("C18.no_panic"), format!("[real standard error not writable] {}", a[1].as_str().unwrap_or("")));
    }
    r.harness_error = v["harness_error"].as_str().map(|s| s.to_string());
    r.inconclusive = v["inconclusive"].as_bool().unwrap_or(false);
    r.nontrivial = v["nontrivial"].as_bool().unwrap_or(false);
    r.sub_runs = v["sub_runs"].as_u64().unwrap_or(1);
    r.sim_ns = v["sim_ns"].as_u64().unwrap_or(0);
    r.steps = v["steps"].as_u64().unwrap_or(0);
    r.trace_hash = v["trace_hash"].as_u64().unwrap_or(0);
    for (name, map) in [("probes", &mut r.probes), ("faults", &mut r.faults)] {
        if let Some(o) = v[name].as_object() {
            for (k, x) in o {
                map.insert(k.clone(), x.as_u64().unwrap_or(0));
            }
        }
    }
    r.probe("histories_run_with_unwritable_stderr");
    r
}

/// The other side of `exec_in_child`.
pub fn child_main(check: &dyn Check) -> i32 {
    use std::io::Read;
    let mut text = String::new();
    if std::io::stdin().read_to_string(&mut text).is_err() {
        return 2;
    }
    let sc = match serde_json::from_str::<serde_json::Value>(&text).ok().and_then(|v| Scenario::from_json(&v)) {
        Some(s) => s,
        None => return 2,
    };
    let r = check.exec(&sc);
    let v = serde_json::json!({
        "violation": r.violation.as_ref().map(|(a, b)| vec![a.clone(), b.clone()]),
        "harness_error": r.harness_error,
        "inconclusive": r.inconclusive,
        "nontrivial": r.nontrivial,
        "sub_runs": r.sub_runs,
        "sim_ns": r.sim_ns,
        "steps": r.steps,
        "trace_hash": r.trace_hash,
        "probes": r.probes,
        "faults": r.faults,
    });
    println!("CHILD-REPORT {v}");
    0
}

impl Check for C18 {
    fn id(&self) -> &'static str {
        "C18"
    }
    fn level(&self) -> &'static str {
        "fault_enumeration"
    }
    fn rule_text(&self) -> String {
        "Histories (3..15 quick / 3..30 thorough calls; standalone bars and MultiProgress with siblings; tick/inc/set_message/set_prefix/set_length/set_style/set_tab_width/println/suspend/reset/finish*/force_draw/iterator completion, add/insert*/remove/drop, mp.println/clear/suspend, optional steady ticker + simulated sleeps) are sampled from the seed. For each history the fault-free run counts the terminal calls N; then every index k in 0..N is failed in three modes (only call k fails / call k and all later calls fail / call k fails and each later call fails with probability 1/2, a fixed function of the indices) with rotating errors (io::ErrorKind Other, BrokenPipe, Interrupted, WouldBlock, WriteZero, and errors carrying an OS code: EIO, EPIPE, EINTR, EAGAIN, ENOSPC): exhaustive over (k, mode) per history for k < 250, every 41st index and every flush call beyond that (one history in sixty prints a text of 130..400 lines; one history in twelve ends with 240..300 forced redraws: the program carries on for long after the terminal went away). One history in forty runs (with its whole enumeration) in a child process whose real standard error is a pipe nobody reads, so that every write to it fails with EPIPE; a process that dies without a report is a violation. Oracle: no call panics on any simulated thread; getters (position, length, message, prefix, is_finished) after every call equal the fault-free run; mp.println/mp.clear return Err iff a terminal call failed during them; afterwards every bar, sibling and the MultiProgress are exercised and dropped without panic (a poisoned lock shows there), and a println on a MultiProgress that is not hidden must make terminal calls again (no failure silences the target for good). Non-trivial: history with N >= 3 terminal calls. Distinct = distinct scenario hash; 'executions_including_sub_runs' counts the enumerated fault runs.".into()
    }
    fn assumptions(&self) -> Vec<String> {
        vec![
            "what the terminal shows after a failed draw is not claimed".into(),
            "with a steady ticker the schedule is seeded: the prefix before the first fault is identical to the fault-free run by determinism".into(),
        ]
    }
    fn budget(&self, tier: Tier) -> Budget {
        match tier {
            Tier::Quick => Budget { runs: 800, wall_s: 120 },
            Tier::Thorough => Budget { runs: 12_000, wall_s: 900 },
        }
    }
    fn corpus(&self) -> Vec<Scenario> {
        let mut v = vec![];
        // set_tab_width with a failing terminal (unwrap of the draw result)
        let mut s = Scenario::new("C18", "single", 181);
        s.set("w", 20);
        s.set("h", 10);
        s.threads = vec![vec![
            Op::new("new").n(9).n(0).n(1).n(10).n(0).n(8).s("{obs}{msg} {pos}").s("").s(""),
            Op::new("tick").n(0),
            Op::new("set_tab_width").n(0).n(4),
            Op::new("set_message").n(0).n(0).s("a\tb"),
        ]];
        v.push(s);
        // MultiProgress::suspend with a failing terminal
        let mut s = Scenario::new("C18", "multi", 182);
        s.set("w", 20);
        s.set("h", 10);
        s.set("multi", 1);
        s.threads = vec![vec![
            Op::new("add").n(0).n(0).n(1).n(10).n(0).n(8).s("{obs}A {pos}").s("").s(""),
            Op::new("add").n(0).n(0).n(1).n(10).n(0).n(8).s("{obs}B {pos}").s("").s(""),
            Op::new("tick").n(0),
            Op::new("tick").n(1),
            Op::new("mp_suspend").s("hello"),
            Op::new("suspend").n(1).n(0).s("world"),
            Op::new("mp_println").s("log"),
        ]];
        v.push(s);
        // a frame cut by the terminal height leaves the cursor mid-row; the next draw starts with
        // a line feed of its own: that call can fail like any other
        let mut s = Scenario::new("C18", "multi", 183);
        s.set("w", 10);
        s.set("h", 2);
        s.set("multi", 1);
        s.threads = vec![vec![
            Op::new("add").n(0).n(0).n(1).n(10).n(0).n(8).s("{obs}{msg}").s("").s("").s("abcdefghijklmnopqrstuvwxyz"),
            Op::new("tick").n(0),
            Op::new("mp_println").s("hello"),
            Op::new("mp_println").s("x"),
            Op::new("mp_clear"),
            Op::new("set_message").n(0).n(0).s("ok"),
            Op::new("mp_println").s("y"),
        ]];
        v.push(s);
        // println while a finished, dropped bar waits at the head to be reaped: whatever the
        // implementation does about its rows, a failure of that draw is reported
        let mut s = Scenario::new("C18", "multi", 184);
        s.set("w", 20);
        s.set("h", 10);
        s.set("multi", 1);
        s.threads = vec![vec![
            Op::new("add").n(0).n(0).n(1).n(10).n(0).n(8).s("{obs}A {pos}").s("").s(""),
            Op::new("add").n(0).n(0).n(1).n(10).n(0).n(8).s("{obs}B {pos}").s("").s(""),
            Op::new("add").n(0).n(0).n(1).n(10).n(0).n(8).s("{obs}C {pos}").s("").s(""),
            Op::new("tick").n(0),
            Op::new("tick").n(1),
            Op::new("tick").n(2),
            Op::new("finish").n(1).n(0).s(""),
            Op::new("drop_all").n(1),
            Op::new("finish").n(0).n(0).s(""),
            Op::new("drop_all").n(0),
            Op::new("mp_println").s("log"),
            Op::new("tick").n(2),
            Op::new("mp_println").s("log2"),
        ]];
        v.push(s);
        v
    }
    fn gen(&self, rng: &mut Rng, tier: Tier, index: u64) -> Scenario {
        let fl = if rng.chance(1, 3) { Flavor::C01 } else { Flavor::C02 };
        // reuse the terminal checks' generator at a smaller size
        let mut sc = TermCheck(fl).gen(rng, Tier::Quick, index);
        while sc.mode == "sched" {
            // (the scheduled modes of the terminal checks have their own executors)
            sc = TermCheck(fl).gen(rng, Tier::Quick, index);
        }
        sc.prop = "C18".into();
        let long_tail = rng.chance(1, 12);
        if long_tail {
            if sc.c("hz") == 0 && rng.chance(1, 2) {
                sc.set("hz", 20);
            }
            sc.mode = format!("{}+long", sc.mode);
        }
        sc.set("xcheck", 0);
        // (one history in forty runs in a process whose real standard error cannot be written)
        if !long_tail && rng.chance(1, 40) {
            sc.set("stderr_broken", 1);
        }
        // (mostly roomy; sometimes so low that frames are cut at the terminal height)
        let hh = *rng.pick(&[30, 30, 30, 1, 2, 3]);
        sc.set("h", hh);
        let max = if tier == Tier::Quick { 15 } else { 30 };
        let is_multi = sc.c("multi") == 1;
        let ops = &mut sc.threads[0];
        // keep the creation op(s) and trim
        if ops.len() > max {
            ops.truncate(max);
        }
        // sprinkle the calls that matter here
        let n = ops.len();
        for _ in 0..rng.range(0, 3) {
            let at = 1 + rng.usize_below(n.max(1));
            let b = rng.below(4);
            let op = match rng.below(6) {
                0 | 1 => Op::new("set_tab_width").n(b).n(*rng.pick(&[0, 2, 4, 8])),
                2 => Op::new("mp_suspend").s("Vx"),
                3 => Op::new("retarget_hidden").n(b),
                _ => Op::new("suspend").n(b).n(0).s("Ux"),
            };
            ops.insert(at.min(ops.len()), op);
        }
        if rng.chance(1, 60) {
            // a text of a few hundred lines printed in one call: one frame with hundreds of
            // terminal calls
            let n_lines = rng.range(130, 400);
            let text = (0..n_lines).map(|i| format!("L{i}")).collect::<Vec<_>>().join("\n");
            let at = 1 + rng.usize_below(ops.len().max(1));
            let op = if is_multi { Op::new("mp_println").s(text) } else { Op::new("println").n(0).n(0).s(text) };
            ops.insert(at.min(ops.len()), op);
        }
        if long_tail {
            // the program carries on for long after the fault: a long run of forced redraws at
            // the end of the history (on a rate-limited target in half of these)
            ops.push(Op::new("burn_forced").n(rng.below(2)).n(rng.range(240, 300)));
        }
        if rng.chance(1, 4) {
            // a steady ticker and some simulated sleeping, so that faults also hit the ticker thread
            let at = 1 + rng.usize_below(ops.len().max(1));
            ops.insert(at.min(ops.len()), Op::new("enable_steady_tick").n(rng.below(3)).n(*rng.pick(&[1_000_000, 20_000_000])));
            for _ in 0..rng.range(1, 3) {
                let at = at + 1 + rng.usize_below((ops.len() - at).max(1));
                ops.insert(at.min(ops.len()), Op::new("sleep").n(*rng.pick(&[1_500_000, 45_000_000])));
            }
            // calls that redraw under the bar's lock while the ticker is alive
            if rng.chance(1, 2) {
                let tb = ops[at.min(ops.len() - 1)].n0();
                let at2 = at + 1 + rng.usize_below((ops.len() - at).max(1));
                ops.insert(at2.min(ops.len()), Op::new("set_tab_width").n(tb).n(*rng.pick(&[0, 2, 4])));
            }
            sc.set("strategy", 0);
            sc.mode = format!("{}+ticker", sc.mode);
        }
        sc
    }
    fn exec(&self, sc: &Scenario) -> Report {
        // (a share of the histories runs in a process of its own whose real standard error cannot
        // be written: whatever the library does about a failed draw must not depend on it)
        if sc.c("stderr_broken") == 1 && std::env::var_os("VERIF_IN_CHILD").is_none() {
            return exec_in_child(sc);
        }
        // pinned single plan (replay of a minimised failure)
        let pinned = sc.cfg.contains_key("fault_k");
        let base = run_once(sc, None, None);
        let mut total = base.report.clone();
        total.sub_runs = 1;
        if total.violation.is_some() || total.harness_error.is_some() {
            return total;
        }
        let n = base.n_calls;
        total.nontrivial = n >= 3;
        total.probe_n("terminal_calls_in_fault_free_runs", n);
        // every index below 250; beyond that (histories with a long tail of forced redraws) every
        // 41st index, so that the enumeration stays affordable
        let plans: Vec<(u64, u64)> = if pinned {
            vec![(sc.c("fault_k"), sc.c("fault_mode"))]
        } else {
            // (and every flush: few calls, and the ones a frame's outcome hinges on)
            let late: std::collections::BTreeSet<u64> = base.late_flush_idx.iter().copied().take(200).collect();
            (0..n).filter(|k| *k < 250 || k % 41 == 0 || late.contains(k)).flat_map(|k| [(k, 0u64), (k, 1u64), (k, 2u64)]).collect()
        };
        for (k, mode) in plans {
            let plan = FaultPlan {
                fail_at: if mode == 0 { vec![k] } else { vec![] },
                fail_from: if mode == 1 { Some(k) } else { None },
                flaky_from: if mode == 2 { Some(k) } else { None },
                slow_flush_ns: 0,
                kind_seed: k,
            };
            let o = run_once(sc, Some(plan), Some(&base.snaps));
            total.sub_runs += 1;
            total.steps += o.report.steps;
            total.sim_ns += o.report.sim_ns;
            total.context_switches += o.report.context_switches;
            *total.faults.entry(["terminal_call_failed_once", "terminal_calls_fail_from_k", "terminal_calls_flaky_from_k"][mode as usize % 3].into()).or_insert(0) += 1;
            *total.faults.entry("terminal_call_errors_returned".into()).or_insert(0) += o.failed_calls;
            if let Some(e) = o.report.harness_error {
                total.harness_error = Some(e);
                return total;
            }
            if let Some((rule, d)) = o.report.violation {
                let rule = if rule == "deadlock" { "C18.deadlock".to_string() } else { rule };
                total.violation = Some((rule, format!("fault plan: terminal call #{k} {} -> {d}", ["fails once", "and all later calls fail", "fails and every later call fails with probability 1/2"][mode as usize % 3])));
                total.schedule = o.report.schedule;
                return total;
            }
        }
        total
    }
    fn shrink_cfg(&self) -> Vec<(&'static str, u64)> {
        vec![("hz", 0), ("bottom", 0)]
    }
}
