//! SimTerm: the simulated terminal behind indicatif's `TermLike` seam.
//!
//! A cell grid `W x H` with unbounded scrollback and xterm/vt100 semantics for exactly what can
//! reach it: printable characters (unicode-width widths), deferred wrap at the right margin,
//! CR, LF with scrolling at the bottom row, CUU/CUD/CUF/CUB clamped to the screen, EL 2, SGR
//! (parsed, ignored for content). Rows are addressed by absolute index (scrollback + screen).
//! Every call is logged, may be failed by the fault plan, and may take simulated time.

use std::io;
use std::sync::{Arc, Mutex};

use unicode_width::UnicodeWidthChar;

#[derive(Clone, Debug, PartialEq, Eq)]
pub enum CallKind {
    Up(usize),
    Down(usize),
    Left(usize),
    Right(usize),
    WriteLine(String),
    WriteStr(String),
    ClearLine,
    Flush,
}

impl CallKind {
    pub fn code(&self) -> u64 {
        match self {
            CallKind::Up(n) => 0x100 + *n as u64,
            CallKind::Down(n) => 0x200 + *n as u64,
            CallKind::Left(n) => 0x300 + *n as u64,
            CallKind::Right(n) => 0x400 + *n as u64,
            CallKind::WriteLine(s) => 0x500 + s.len() as u64,
            CallKind::WriteStr(s) => 0x600 + s.len() as u64,
            CallKind::ClearLine => 0x700,
            CallKind::Flush => 0x800,
        }
    }
}

#[derive(Clone, Debug)]
pub struct Call {
    pub idx: u64,
    pub op: u64,
    pub tid: usize,
    pub kind: CallKind,
    pub failed: bool,
    pub clock: u64,
}

fn flaky_bit(k: u64, idx: u64) -> bool {
    let mut x = k.wrapping_mul(0x9E37_79B9_7F4A_7C15) ^ idx.wrapping_mul(0xC2B2_AE3D_27D4_EB4F);
    x ^= x >> 29;
    x = x.wrapping_mul(0xBF58_476D_1CE4_E5B9);
    x ^= x >> 32;
    x & 1 == 1
}

#[derive(Clone, Debug, Default)]
pub struct FaultPlan {
    /// fail exactly these call indices
    pub fail_at: Vec<u64>,
    /// fail this call index and every later one
    pub fail_from: Option<u64>,
    /// fail this call index, and each later one with probability 1/2 (a pure function of the
    /// two indices: no PRNG state involved)
    pub flaky_from: Option<u64>,
    /// every flush takes this much simulated time
    pub slow_flush_ns: u64,
    /// error kind rotation seed
    pub kind_seed: u64,
}

#[derive(Clone, Debug)]
pub struct Grid {
    pub w: usize,
    pub h: usize,
    /// all rows ever on the terminal, absolute index; '\0' marks the right half of a wide char
    pub rows: Vec<Vec<char>>,
    /// absolute index of the top screen row
    pub top: usize,
    pub cx: usize,
    pub cy: usize,
    pub pending_wrap: bool,
    esc: EscState,
    params: String,
}

#[derive(Clone, Debug, PartialEq)]
enum EscState {
    Ground,
    Esc,
    Csi,
}

impl Grid {
    pub fn new(w: usize, h: usize) -> Grid {
        Grid {
            w,
            h,
            rows: (0..h).map(|_| vec![' '; w]).collect(),
            top: 0,
            cx: 0,
            cy: 0,
            pending_wrap: false,
            esc: EscState::Ground,
            params: String::new(),
        }
    }

    fn linefeed(&mut self) {
        if self.cy + 1 < self.h {
            self.cy += 1;
        } else {
            self.top += 1;
            self.rows.push(vec![' '; self.w]);
        }
    }

    fn put(&mut self, c: char) {
        let cw = UnicodeWidthChar::width(c).unwrap_or(0);
        if cw == 0 {
            return;
        }
        if cw > self.w {
            return;
        }
        if self.pending_wrap || self.cx + cw > self.w {
            self.cx = 0;
            self.pending_wrap = false;
            self.linefeed();
        }
        let r = self.top + self.cy;
        // overwriting half of a wide char blanks the other half
        if self.rows[r][self.cx] == '\0' && self.cx > 0 {
            self.rows[r][self.cx - 1] = ' ';
        }
        self.rows[r][self.cx] = c;
        if cw == 2 {
            if self.cx + 2 < self.w && self.rows[r][self.cx + 2] == '\0' {
                self.rows[r][self.cx + 2] = ' ';
            }
            self.rows[r][self.cx + 1] = '\0';
        } else if self.cx + 1 < self.w && self.rows[r][self.cx + 1] == '\0' {
            self.rows[r][self.cx + 1] = ' ';
        }
        self.cx += cw;
        if self.cx >= self.w {
            self.cx = self.w - 1;
            self.pending_wrap = true;
        }
    }

    pub fn feed(&mut self, s: &str) {
        for c in s.chars() {
            match self.esc {
                EscState::Ground => match c {
                    '\x1b' => self.esc = EscState::Esc,
                    '\r' => {
                        self.cx = 0;
                        self.pending_wrap = false;
                    }
                    '\n' => {
                        self.pending_wrap = false;
                        self.linefeed();
                    }
                    c if (c as u32) < 0x20 || c == '\x7f' => {}
                    c => self.put(c),
                },
                EscState::Esc => {
                    if c == '[' {
                        self.esc = EscState::Csi;
                        self.params.clear();
                    } else {
                        self.esc = EscState::Ground;
                    }
                }
                EscState::Csi => {
                    if c.is_ascii_digit() || c == ';' || c == '?' {
                        self.params.push(c);
                    } else {
                        let n: usize = self
                            .params
                            .split(';')
                            .next()
                            .and_then(|p| p.parse().ok())
                            .unwrap_or(0);
                        let n1 = n.max(1);
                        match c {
                            'A' => {
                                self.cy = self.cy.saturating_sub(n1);
                                self.pending_wrap = false;
                            }
                            'B' => {
                                self.cy = (self.cy + n1).min(self.h - 1);
                                self.pending_wrap = false;
                            }
                            'C' => {
                                self.cx = (self.cx + n1).min(self.w - 1);
                                self.pending_wrap = false;
                            }
                            'D' => {
                                self.cx = self.cx.saturating_sub(n1);
                                self.pending_wrap = false;
                            }
                            'K' => {
                                let r = self.top + self.cy;
                                match n {
                                    2 => self.rows[r].iter_mut().for_each(|c| *c = ' '),
                                    1 => {
                                        for i in 0..=self.cx.min(self.w - 1) {
                                            self.rows[r][i] = ' ';
                                        }
                                    }
                                    _ => {
                                        for i in self.cx..self.w {
                                            self.rows[r][i] = ' ';
                                        }
                                    }
                                }
                            }
                            _ => {} // SGR and everything else: no effect on content
                        }
                        self.esc = EscState::Ground;
                    }
                }
            }
        }
    }

    pub fn row_string(&self, r: usize) -> String {
        let s: String = self.rows[r].iter().filter(|c| **c != '\0').collect();
        s.trim_end_matches(' ').to_string()
    }

    /// Whole transcript (scrollback + screen), right-trimmed rows, trailing blank rows removed.
    pub fn transcript(&self) -> Vec<String> {
        let mut v: Vec<String> = (0..self.rows.len()).map(|r| self.row_string(r)).collect();
        while v.last().map_or(false, |s| s.is_empty()) {
            v.pop();
        }
        v
    }

    /// Where the next printable character would land: (absolute row, column)
    pub fn next_char_pos(&self) -> (usize, usize) {
        if self.pending_wrap {
            (self.top + self.cy + 1, 0)
        } else {
            (self.top + self.cy, self.cx)
        }
    }

    pub fn screen_rows(&self) -> Vec<String> {
        (self.top..self.top + self.h)
            .map(|r| self.row_string(r))
            .collect()
    }
}

/// A real kernel pseudo terminal: the library draws through a real `console::Term` on the
/// slave side (so that the `TargetKind::Term` arm and console's own escape sequences run); the
/// bytes arriving on the master side are fed to the same grid.
pub struct Pty {
    /// a third descriptor of the slave side, used only to send synchronisation marks
    pub sync: std::fs::File,
    pub bytes: u64,
    /// what a reader thread has taken off the master side so far (a frame larger than the
    /// kernel's pty buffer would otherwise block the writer for good: nobody else reads)
    pub inbox: Arc<(Mutex<Vec<u8>>, std::sync::Condvar)>,
    pub stop: Arc<std::sync::atomic::AtomicBool>,
}

impl Drop for Pty {
    fn drop(&mut self) {
        self.stop.store(true, std::sync::atomic::Ordering::SeqCst);
    }
}

fn pty_reader(master: std::os::fd::OwnedFd, inbox: Arc<(Mutex<Vec<u8>>, std::sync::Condvar)>, stop: Arc<std::sync::atomic::AtomicBool>) {
    let fd = std::os::fd::AsRawFd::as_raw_fd(&master);
    let mut buf = [0u8; 8192];
    while !stop.load(std::sync::atomic::Ordering::SeqCst) {
        let mut pfd = libc::pollfd { fd, events: libc::POLLIN, revents: 0 };
        // SAFETY: polling / reading a descriptor this thread owns
        let rc = unsafe { libc::poll(&mut pfd, 1, 20) };
        if rc <= 0 {
            continue;
        }
        let n = unsafe { libc::read(fd, buf.as_mut_ptr() as *mut libc::c_void, buf.len()) };
        if n > 0 {
            let (m, cv) = &*inbox;
            m.lock().unwrap().extend_from_slice(&buf[..n as usize]);
            cv.notify_all();
        } else if n == 0 || pfd.revents & (libc::POLLHUP | libc::POLLERR) != 0 {
            // every descriptor of the slave side is closed
            break;
        }
    }
}

/// Sent through the slave side before the master side is read: the kernel hands pty data over
/// asynchronously, the tty keeps the order, so everything written before the mark has arrived
/// once the mark has (the grid ignores SGR sequences; the library never emits this one).
const PTY_MARK: &[u8] = b"\x1b[7777m";

pub struct TermState {
    pub pty: Option<Pty>,
    pub w: u16,
    pub h: u16,
    pub grid: Grid,
    pub calls: Vec<Call>,
    pub keep_calls: bool,
    /// the terminal applies what the library writes only when the library flushes (like
    /// `Term::buffered_stderr()`); output written by others (a suspend closure) is not held back
    pub buffered: bool,
    /// every terminal call is a scheduling point (terminal I/O is where a thread is descheduled
    /// while it holds the locks of the draw it is in the middle of)
    pub yield_in_calls: bool,
    pub pending_bytes: String,
    pub n_calls: u64,
    pub n_queries: u64,
    pub flushes: u64,
    pub failed_calls: u64,
    /// failed calls per simulated thread (the thread that made the call)
    pub failed_by_tid: std::collections::BTreeMap<usize, u64>,
    /// indices of the flush calls beyond the first 250 calls (C18 enumerates those as well)
    pub late_flush_idx: Vec<u64>,
    pub fault: FaultPlan,
    /// index of the harness-level API call in progress (set by the driver)
    pub cur_op: u64,
    pub tab_seen: Option<String>,
    pub vt: Option<vt100::Parser>,
    pub xcheck_error: Option<String>,
    pub calls_hash: u64,
    /// (flush count, clock, op) of every flush
    pub flush_log: Vec<(u64, u64, u64, usize)>,
    /// callback-free observation: transcript snapshot taken at every flush when enabled
    pub snapshot_at_flush: bool,
    pub snapshots: Vec<(u64, Vec<String>)>,
    /// called at every successful flush with (flush number, transcript); must not touch the terminal
    pub on_flush: Option<Arc<dyn Fn(u64, &[String]) + Send + Sync>>,
}

#[derive(Clone)]
pub struct SimTerm {
    pub st: Arc<Mutex<TermState>>,
}

impl std::fmt::Debug for SimTerm {
    fn fmt(&self, f: &mut std::fmt::Formatter<'_>) -> std::fmt::Result {
        f.debug_struct("SimTerm").finish_non_exhaustive()
    }
}

impl SimTerm {
    pub fn new(w: u16, h: u16) -> SimTerm {
        assert!(w > 0 && h > 0);
        SimTerm {
            st: Arc::new(Mutex::new(TermState {
                pty: None,
                w,
                h,
                grid: Grid::new(w as usize, h as usize),
                calls: vec![],
                keep_calls: false,
                buffered: false,
                yield_in_calls: false,
                pending_bytes: String::new(),
                n_calls: 0,
                n_queries: 0,
                flushes: 0,
                failed_calls: 0,
                failed_by_tid: Default::default(),
                late_flush_idx: vec![],
                fault: FaultPlan::default(),
                cur_op: 0,
                tab_seen: None,
                vt: None,
                xcheck_error: None,
                calls_hash: 0xcbf2_9ce4_8422_2325,
                flush_log: vec![],
                snapshot_at_flush: false,
                snapshots: vec![],
                on_flush: None,
            })),
        }
    }

    /// A SimTerm whose grid is fed from the master side of a real pty; returns the
    /// `console::Term` for the slave side. None if no pty can be opened.
    pub fn new_pty(w: u16, h: u16) -> Option<(SimTerm, console::Term)> {
        use std::os::fd::{FromRawFd, OwnedFd};
        let mut master: libc::c_int = -1;
        let mut slave: libc::c_int = -1;
        let ws = libc::winsize {
            ws_row: h,
            ws_col: w,
            ws_xpixel: 0,
            ws_ypixel: 0,
        };
        // SAFETY: plain FFI call with valid out-pointers; termios left at the kernel default
        let rc = unsafe { libc::openpty(&mut master, &mut slave, std::ptr::null_mut(), std::ptr::null(), &ws) };
        if rc != 0 || master < 0 || slave < 0 {
            return None;
        }
        // SAFETY: the descriptors were just returned by openpty and are owned by nobody else
        let master = unsafe { OwnedFd::from_raw_fd(master) };
        let slave = unsafe { std::fs::File::from_raw_fd(slave) };
        unsafe {
            let fl = libc::fcntl(std::os::fd::AsRawFd::as_raw_fd(&master), libc::F_GETFL);
            libc::fcntl(std::os::fd::AsRawFd::as_raw_fd(&master), libc::F_SETFL, fl | libc::O_NONBLOCK);
        }
        let slave2 = slave.try_clone().ok()?;
        let sync = slave.try_clone().ok()?;
        let term = console::Term::read_write_pair(slave2, slave);
        if !term.is_term() {
            return None;
        }
        let t = SimTerm::new(w, h);
        let inbox: Arc<(Mutex<Vec<u8>>, std::sync::Condvar)> = Arc::new((Mutex::new(vec![]), std::sync::Condvar::new()));
        let stop = Arc::new(std::sync::atomic::AtomicBool::new(false));
        {
            let (i2, s2) = (inbox.clone(), stop.clone());
            if std::thread::Builder::new().name("pty-reader".into()).spawn(move || pty_reader(master, i2, s2)).is_err() {
                return None;
            }
        }
        t.lock().pty = Some(Pty { sync, bytes: 0, inbox, stop });
        Some((t, term))
    }

    /// pty mode: read everything that has arrived on the master side into the grid; bytes that
    /// arrived count as one painted frame
    pub fn pump(&self) {
        let mut s = self.lock();
        let inbox = match &s.pty {
            Some(p) => p.inbox.clone(),
            None => return,
        };
        {
            use std::io::Write;
            let p = s.pty.as_mut().unwrap();
            if p.sync.write_all(PTY_MARK).and_then(|_| p.sync.flush()).is_err() {
                s.xcheck_error = Some("pty: cannot write the synchronisation mark".into());
                return;
            }
        }
        let deadline = std::time::Instant::now() + std::time::Duration::from_secs(20);
        let mut got: Vec<u8> = {
            let (m, cv) = &*inbox;
            let mut g = m.lock().unwrap();
            loop {
                if let Some(i) = g.windows(PTY_MARK.len()).position(|w| w == PTY_MARK) {
                    // everything up to and including the mark
                    let rest = g.split_off(i + PTY_MARK.len());
                    let taken = std::mem::replace(&mut *g, rest);
                    break taken;
                }
                if std::time::Instant::now() > deadline {
                    s.xcheck_error = Some("pty: the synchronisation mark did not arrive within 20 s".into());
                    return;
                }
                g = cv.wait_timeout(g, std::time::Duration::from_millis(50)).unwrap().0;
            }
        };
        // take the mark out again
        while let Some(i) = got.windows(PTY_MARK.len()).position(|w| w == PTY_MARK) {
            got.drain(i..i + PTY_MARK.len());
        }
        if got.is_empty() {
            return;
        }
        let text = String::from_utf8_lossy(&got).to_string();
        if text.contains('\t') && s.tab_seen.is_none() {
            s.tab_seen = Some(text.clone());
        }
        s.grid.feed(&text);
        s.flushes += 1;
        s.n_calls += 1;
        if let Some(p) = s.pty.as_mut() {
            p.bytes += got.len() as u64;
        }
        let (f, op) = (s.flushes, s.cur_op);
        let clock = 0;
        s.flush_log.push((f, clock, op, usize::MAX));
    }

    /// Output that does not come from the library (the closure of `suspend`, other programs):
    /// it reaches the terminal at once, whatever the library still holds in its buffer. Counts
    /// as a frame for the observers (snapshots, flush hook), not as a call of the library.
    pub fn external_line(&self, line: &str) {
        let clock = verif_simrt::sched::clock_ns();
        let tid = verif_simrt::sched::tid().unwrap_or(usize::MAX);
        let mut s = self.lock();
        if s.pty.is_some() {
            return;
        }
        let bytes = format!("{line}\r\n");
        s.grid.feed(&bytes);
        if let Some(mut vt) = s.vt.take() {
            let b = bytes.clone();
            if let Ok(vt) = std::panic::catch_unwind(std::panic::AssertUnwindSafe(move || {
                vt.process(b.as_bytes());
                vt
            })) {
                s.vt = Some(vt);
            }
        }
        s.flushes += 1;
        let (f, op) = (s.flushes, s.cur_op);
        s.flush_log.push((f, clock, op, tid));
        if s.snapshot_at_flush {
            let t = s.grid.transcript();
            s.snapshots.push((f, t));
        }
        if let Some(h) = s.on_flush.clone() {
            let t = s.grid.transcript();
            h(f, &t);
        }
    }

    pub fn is_pty(&self) -> bool {
        self.lock().pty.is_some()
    }

    pub fn with_xcheck(self) -> SimTerm {
        {
            let mut s = self.st.lock().unwrap();
            let (h, w) = (s.h, s.w);
            s.vt = Some(vt100::Parser::new(h, w, 0));
        }
        self
    }

    pub fn lock(&self) -> std::sync::MutexGuard<'_, TermState> {
        match self.st.lock() {
            Ok(g) => g,
            Err(p) => p.into_inner(),
        }
    }

    pub fn set_op(&self, op: u64) {
        self.lock().cur_op = op;
    }
    pub fn n_calls(&self) -> u64 {
        self.pump();
        self.lock().n_calls
    }
    pub fn n_all(&self) -> u64 {
        let s = self.lock();
        s.n_calls + s.n_queries
    }
    pub fn flushes(&self) -> u64 {
        self.pump();
        self.lock().flushes
    }
    pub fn transcript(&self) -> Vec<String> {
        self.pump();
        self.lock().grid.transcript()
    }
    pub fn set_fault(&self, f: FaultPlan) {
        self.lock().fault = f;
    }

    /// The window gets a new height (the width stays). Growing pulls rows back from the
    /// scrollback (xterm), or adds blank rows at the bottom when there is none; shrinking is only
    /// done when enough blank rows below the cursor can go, so that no row that was within reach
    /// leaves it. Returns false (nothing changed) when the resize cannot be modelled: pty,
    /// vt100 cross-check, bytes held back by a buffered terminal, not enough blank rows below.
    pub fn resize_height(&self, new_h: u16) -> bool {
        let mut s = self.lock();
        if s.pty.is_some() || s.vt.is_some() || !s.pending_bytes.is_empty() || new_h == 0 {
            return false;
        }
        let (old, new) = (s.h as usize, new_h as usize);
        if new > old {
            let d = new - old;
            let pulled = d.min(s.grid.top);
            s.grid.top -= pulled;
            s.grid.cy += pulled;
            let w = s.grid.w;
            for _ in 0..(d - pulled) {
                s.grid.rows.push(vec![' '; w]);
            }
        } else if new < old {
            let d = old - new;
            let below = old - 1 - s.grid.cy;
            let n = s.grid.rows.len();
            if below < d || n < d || s.grid.rows[n - d..].iter().any(|r| r.iter().any(|c| *c != ' ')) {
                return false;
            }
            s.grid.rows.truncate(n - d);
        }
        s.h = new_h;
        s.grid.h = new;
        true
    }

    fn call(&self, kind: CallKind) -> io::Result<()> {
        if self.lock().yield_in_calls {
            verif_simrt::sched::yield_now();
        }
        let mut slow = 0u64;
        let clock = verif_simrt::sched::clock_ns();
        let res = {
            let mut s = self.lock();
            let idx = s.n_calls;
            s.n_calls += 1;
            let failed = s.fault.fail_at.contains(&idx)
                || s.fault.fail_from.map_or(false, |k| idx >= k)
                || s.fault.flaky_from.map_or(false, |k| idx == k || (idx > k && flaky_bit(k, idx)));
            let tid = verif_simrt::sched::tid().unwrap_or(usize::MAX);
            let mut h = s.calls_hash;
            for x in [kind.code(), failed as u64, tid as u64] {
                h ^= x;
                h = h.wrapping_mul(0x0000_0100_0000_01B3);
            }
            if let CallKind::WriteStr(t) | CallKind::WriteLine(t) = &kind {
                for b in t.bytes() {
                    h ^= b as u64;
                    h = h.wrapping_mul(0x0000_0100_0000_01B3);
                }
            }
            s.calls_hash = h;
            if idx >= 250 && matches!(kind, CallKind::Flush) {
                s.late_flush_idx.push(idx);
            }
            if s.keep_calls {
                let op = s.cur_op;
                s.calls.push(Call {
                    idx,
                    op,
                    tid,
                    kind: kind.clone(),
                    failed,
                    clock,
                });
            }
            if failed {
                s.failed_calls += 1;
                *s.failed_by_tid.entry(tid).or_insert(0) += 1;
                let kinds = [
                    io::ErrorKind::Other,
                    io::ErrorKind::BrokenPipe,
                    io::ErrorKind::Interrupted,
                    io::ErrorKind::WouldBlock,
                    io::ErrorKind::WriteZero,
                ];
                // (half of the errors carry an OS error code as a real write(2) failure does:
                // EIO, EPIPE, EINTR, EAGAIN, ENOSPC)
                let sel = (idx + s.fault.kind_seed) % (2 * kinds.len() as u64);
                if sel >= kinds.len() as u64 {
                    let codes = [5, 32, 4, 11, 28];
                    Err(io::Error::from_raw_os_error(codes[(sel as usize - kinds.len()) % codes.len()]))
                } else {
                    Err(io::Error::new(kinds[sel as usize], "injected terminal failure"))
                }
            } else {
                let bytes: String = match &kind {
                    CallKind::Up(0) | CallKind::Down(0) | CallKind::Left(0) | CallKind::Right(0) => String::new(),
                    CallKind::Up(n) => format!("\x1b[{n}A"),
                    CallKind::Down(n) => format!("\x1b[{n}B"),
                    CallKind::Right(n) => format!("\x1b[{n}C"),
                    CallKind::Left(n) => format!("\x1b[{n}D"),
                    CallKind::WriteLine(t) => format!("{t}\r\n"),
                    CallKind::WriteStr(t) => t.clone(),
                    CallKind::ClearLine => "\r\x1b[2K".to_string(),
                    CallKind::Flush => String::new(),
                };
                if let CallKind::WriteStr(t) | CallKind::WriteLine(t) = &kind {
                    if t.contains('\t') {
                        if s.tab_seen.is_none() {
                            s.tab_seen = Some(t.clone());
                        }
                        // tab stops are not modelled by the grid: the cross-check is meaningless
                        // from here on (C16 reports the TAB itself)
                        s.vt = None;
                    }
                }
                let bytes = if s.buffered {
                    // held back until the library flushes
                    s.pending_bytes.push_str(&bytes);
                    if kind == CallKind::Flush {
                        std::mem::take(&mut s.pending_bytes)
                    } else {
                        String::new()
                    }
                } else {
                    bytes
                };
                s.grid.feed(&bytes);
                if let Some(mut vt) = s.vt.take() {
                    // the vt100 crate is only a cross-check of our own grid: if it panics
                    // (tiny screens), drop it for the rest of the run
                    let b = bytes.clone();
                    if let Ok(vt) = std::panic::catch_unwind(std::panic::AssertUnwindSafe(move || {
                        vt.process(b.as_bytes());
                        vt
                    })) {
                        s.vt = Some(vt);
                    }
                }
                if kind == CallKind::Flush {
                    s.flushes += 1;
                    let (f, op) = (s.flushes, s.cur_op);
                    s.flush_log.push((f, clock, op, tid));
                    slow = s.fault.slow_flush_ns;
                    if s.vt.is_some() && s.xcheck_error.is_none() {
                        let vt = s.vt.as_ref().unwrap();
                        let w = s.w;
                        let theirs: Vec<String> = vt
                            .screen()
                            .rows(0, w)
                            .map(|r| r.trim_end_matches(' ').to_string())
                            .collect();
                        let ours = s.grid.screen_rows();
                        let (vr, vc) = vt.screen().cursor_position();
                        let oc = if s.grid.pending_wrap { s.grid.w } else { s.grid.cx };
                        if theirs != ours || (vr as usize, vc as usize) != (s.grid.cy, oc) {
                            s.xcheck_error = Some(format!(
                                "SimTerm and vt100 disagree at flush {}: ours={:?} cursor=({},{}) theirs={:?} cursor=({},{})",
                                s.flushes, ours, s.grid.cy, oc, theirs, vr, vc
                            ));
                        }
                    }
                    if s.snapshot_at_flush {
                        let t = s.grid.transcript();
                        let f = s.flushes;
                        s.snapshots.push((f, t));
                    }
                    if let Some(h) = s.on_flush.clone() {
                        let t = s.grid.transcript();
                        h(s.flushes, &t);
                    }
                }
                Ok(())
            }
        };
        if slow > 0 {
            verif_simrt::sched::advance_quiet(slow);
        }
        res
    }
}

impl indicatif::TermLike for SimTerm {
    fn width(&self) -> u16 {
        let mut s = self.lock();
        s.n_queries += 1;
        s.w
    }
    fn height(&self) -> u16 {
        let mut s = self.lock();
        s.n_queries += 1;
        s.h
    }
    fn move_cursor_up(&self, n: usize) -> io::Result<()> {
        self.call(CallKind::Up(n))
    }
    fn move_cursor_down(&self, n: usize) -> io::Result<()> {
        self.call(CallKind::Down(n))
    }
    fn move_cursor_right(&self, n: usize) -> io::Result<()> {
        self.call(CallKind::Right(n))
    }
    fn move_cursor_left(&self, n: usize) -> io::Result<()> {
        self.call(CallKind::Left(n))
    }
    fn write_line(&self, s: &str) -> io::Result<()> {
        self.call(CallKind::WriteLine(s.to_string()))
    }
    fn write_str(&self, s: &str) -> io::Result<()> {
        self.call(CallKind::WriteStr(s.to_string()))
    }
    fn clear_line(&self) -> io::Result<()> {
        self.call(CallKind::ClearLine)
    }
    fn flush(&self) -> io::Result<()> {
        self.call(CallKind::Flush)
    }
}
