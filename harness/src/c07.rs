//! C07 — position and length bookkeeping, including concurrent increments.
//!
//! seq:   one simulated thread, boundary-valued histories, wrapping-u64 / saturating-Option model.
//! sched: 2..8 simulated threads hammering clones of one bar under the seeded scheduler with the
//!        shimmed atomics as scheduling points; oracle = wrapping sum after join, reachable
//!        positions during the run.

use std::sync::atomic::{AtomicU64, Ordering};
use std::sync::Arc;

use indicatif::{ProgressBar, ProgressDrawTarget, ProgressStyle};
use serde_json::{json, Value};
use verif_simrt::rng::Rng;
use verif_simrt::{Config, Strategy, World};

use crate::common::*;
use crate::engine::{Budget, Check, Tier};
use crate::scenario::{Op, Report, Scenario};
use crate::simterm::SimTerm;

pub struct C07;

#[derive(Clone, Debug)]
struct Model {
    pos: u64,
    len: Option<u64>,
    finished: bool,
}

fn mk_bar(sc: &Scenario, term: &Option<SimTerm>) -> ProgressBar {
    let len = if sc.c("len_known") == 1 {
        Some(sc.c("len0"))
    } else {
        None
    };
    let target = match term {
        Some(t) => {
            if sc.c("hz") > 0 {
                ProgressDrawTarget::term_like_with_hz(Box::new(t.clone()), sc.c("hz") as u8)
            } else {
                ProgressDrawTarget::term_like(Box::new(t.clone()))
            }
        }
        None => ProgressDrawTarget::hidden(),
    };
    let pb = ProgressBar::with_draw_target(len, target);
    let pb = pb.with_finish(finish_kind(sc.c("on_finish"), "fin"));
    // builder form of set_position
    let pb = if sc.c("with_pos") == 1 { pb.with_position(sc.c("pos0")) } else { pb };
    pb.set_style(
        ProgressStyle::with_template("{pos}/{len} {percent}% {bar:10} {msg}")
            .unwrap(),
    );
    pb
}

fn check_fraction(r: &mut Report, f: f32, pos: u64, len: Option<u64>, at: &str) {
    if !(f >= 0.0 && f <= 1.0) {
        r.violate(
            "C07.fraction_range",
            format!("{at}: fraction() = {f} outside [0,1] for pos={pos} len={len:?}"),
        );
    }
    match len {
        None if f != 0.0 => r.violate(
            "C07.fraction_unknown_len",
            format!("{at}: fraction() = {f} for unknown length, expected 0"),
        ),
        Some(0) if f != 1.0 => r.violate(
            "C07.fraction_zero_len",
            format!("{at}: fraction() = {f} for zero length (pos={pos}), expected 1"),
        ),
        Some(l) if l > 0 && pos >= l && f != 1.0 => r.violate(
            "C07.fraction_complete",
            format!("{at}: fraction() = {f} for pos={pos} >= len={l}, expected 1"),
        ),
        Some(l) if l > 0 && pos == 0 && f != 0.0 => r.violate(
            "C07.fraction_zero_pos",
            format!("{at}: fraction() = {f} for pos=0 len={l}, expected 0"),
        ),
        _ => {}
    }
}

fn exec_seq(sc: &Scenario) -> Report {
    let sc2 = sc.clone();
    let cfg = Config::sequential(sc.seed);
    let (res, out) = World::run(cfg, move || {
        let sc = sc2;
        let mut r = Report::default();
        let term = if sc.c("visible") == 1 {
            Some(SimTerm::new(sc.c("w").max(1) as u16, 30))
        } else {
            None
        };
        let pb = match call(|| mk_bar(&sc, &term)) {
            Ok(pb) => pb,
            Err(e) => {
                r.violate("C07.no_panic", format!("constructing the bar panicked: {e}"));
                return r;
            }
        };
        // optionally a steady ticker is installed for the whole history: position, length and
        // finished status are bookkept the same way with it (only the drawing changes hands)
        if sc.c("ticker_ms") > 0 {
            let ms = sc.c("ticker_ms");
            if let Err(e) = call(|| pb.enable_steady_tick(std::time::Duration::from_millis(ms))) {
                r.violate("C07.no_panic", format!("enable_steady_tick panicked: {e}"));
                return r;
            }
            r.probe("seq_with_ticker");
        }
        let mut m = Model {
            pos: if sc.c("with_pos") == 1 { sc.c("pos0") } else { 0 },
            len: if sc.c("len_known") == 1 {
                Some(sc.c("len0"))
            } else {
                None
            },
            finished: false,
        };
        let mut clones: Vec<ProgressBar> = vec![];
        let ops = sc.threads.first().cloned().unwrap_or_default();
        for (i, op) in ops.iter().enumerate() {
            let at = format!("op#{i} {}", op.short());
            let a = op.n0();
            // choose the handle: the original or one of the clones
            let h: ProgressBar = if !clones.is_empty() && op.n.len() > 1 && op.n1() % 2 == 1 {
                clones[(op.n1() as usize / 2) % clones.len()].clone()
            } else {
                pb.clone()
            };
            let res = match op.k.as_str() {
                "inc" => {
                    m.pos = m.pos.wrapping_add(a);
                    call(|| h.inc(a))
                }
                "dec" => {
                    m.pos = m.pos.wrapping_sub(a);
                    call(|| h.dec(a))
                }
                "set_position" => {
                    m.pos = a;
                    call(|| h.set_position(a))
                }
                "reset" => {
                    m.pos = 0;
                    m.finished = false;
                    call(|| h.reset())
                }
                "finish" => {
                    let code = a % 5;
                    if code <= 2 {
                        if let Some(l) = m.len {
                            m.pos = l;
                        }
                    }
                    m.finished = true;
                    call(|| apply_finish(&h, code, "done"))
                }
                "finish_using_style" => {
                    let code = sc.c("on_finish") % 5;
                    if code <= 2 {
                        if let Some(l) = m.len {
                            m.pos = l;
                        }
                    }
                    m.finished = true;
                    call(|| h.finish_using_style())
                }
                "update_pos" => {
                    m.pos = a;
                    call(|| h.update(|s| s.set_pos(a)))
                }
                "update_len" => {
                    m.len = Some(a);
                    call(|| h.update(|s| s.set_len(a)))
                }
                "set_length" => {
                    m.len = Some(a);
                    call(|| h.set_length(a))
                }
                "inc_length" => {
                    m.len = m.len.map(|l| l.saturating_add(a));
                    call(|| h.inc_length(a))
                }
                "dec_length" => {
                    m.len = m.len.map(|l| l.saturating_sub(a));
                    call(|| h.dec_length(a))
                }
                "unset_length" => {
                    m.len = None;
                    call(|| h.unset_length())
                }
                "tick" => call(|| h.tick()),
                "reset_elapsed" => call(|| h.reset_elapsed()),
                "reset_eta" => call(|| h.reset_eta()),
                "set_message" => call(|| h.set_message("m")),
                "clone" => {
                    clones.push(h.clone());
                    Ok(())
                }
                "drop_clone" => {
                    if !clones.is_empty() {
                        let c = clones.remove(a as usize % clones.len());
                        call(move || drop(c))
                    } else {
                        Ok(())
                    }
                }
                "advance" => {
                    verif_simrt::sched::advance_quiet(a);
                    Ok(())
                }
                other => {
                    r.harness_error = Some(format!("unknown op {other}"));
                    return r;
                }
            };
            if let Err(e) = res {
                r.violate("C07.no_panic", format!("{at} panicked: {e}"));
                break;
            }
            // observe
            let obs = call(|| {
                let mut seen = (0.0f32, 0u64, None);
                // fraction through the public update() hook; update ticks, which is harmless here
                (h.position(), h.length(), h.is_finished(), {
                    h.update(|s| seen = (s.fraction(), s.pos(), s.len()));
                    seen
                })
            });
            match obs {
                Err(e) => {
                    r.violate("C07.no_panic", format!("getters after {at} panicked: {e}"));
                    break;
                }
                Ok((p, l, fin, (frac, sp, sl))) => {
                    if p != m.pos {
                        r.violate(
                            "C07.position_model",
                            format!("after {at}: position() = {p}, model = {}", m.pos),
                        );
                    }
                    if l != m.len {
                        r.violate(
                            "C07.length_model",
                            format!("after {at}: length() = {l:?}, model = {:?}", m.len),
                        );
                    }
                    if fin != m.finished {
                        r.violate(
                            "C07.finished_model",
                            format!("after {at}: is_finished() = {fin}, model = {}", m.finished),
                        );
                    }
                    if sp != p || sl != l {
                        r.violate(
                            "C07.state_view",
                            format!("after {at}: ProgressState shows pos={sp} len={sl:?}, getters {p} {l:?}"),
                        );
                    }
                    check_fraction(&mut r, frac, p, l, &at);
                }
            }
            if r.violation.is_some() {
                break;
            }
        }
        let boundary = ops.iter().any(|o| {
            matches!(o.k.as_str(), "inc" | "dec" | "set_position" | "set_length" | "inc_length" | "dec_length" | "update_pos" | "update_len")
                && (o.n0() > (1 << 62) || o.n0() == 0)
        });
        r.nontrivial = ops.len() >= 2 && boundary;
        if boundary {
            r.probe("boundary_argument_history");
        }
        if let Some(t) = &term {
            r.probe_n("frames_painted", t.flushes());
        }
        drop(clones);
        drop(pb);
        r
    });
    finish_report(res, out)
}

pub fn finish_report(res: Option<Report>, out: verif_simrt::Outcome) -> Report {
    let mut r = res.unwrap_or_default();
    r.absorb_outcome(&out);
    if let Some(d) = &out.deadlock {
        // properties other than C08 treat a deadlock as a violation of the global "no call blocks forever"
        r.violate("deadlock", d.clone());
    }
    for (t, m) in &out.thread_panics {
        if m.contains("VERIF-INTENTIONAL") {
            // a scenario thread that panics on purpose (unwinding drops its handles)
            continue;
        }
        if *t != 0 {
            r.violate("thread_panic", format!("simulated thread t{t} panicked: {m}"));
        } else if r.violation.is_none() && r.harness_error.is_none() {
            r.harness_error = Some(format!("scenario main thread panicked: {m}"));
        }
    }
    r
}

pub fn strategy_from(sc: &Scenario) -> Strategy {
    match sc.c("strategy") {
        0 => Strategy::Random,
        1 => Strategy::Sticky(sc.c("sticky_p").max(100) as u32),
        _ => Strategy::Pct {
            depth: sc.c("pct_depth").max(2) as u32,
            expected_steps: sc.c("pct_steps").max(20) as u32,
        },
    }
}

pub fn sched_config(sc: &Scenario) -> Config {
    Config {
        seed: sc.seed,
        strategy: strategy_from(sc),
        step_cap: 400_000,
        now_jitter_ns: sc.c("now_jitter_ns"),
        spurious_per_mille: sc.c("spurious_pm") as u32,
        atomics_yield: sc.c("atomics_yield") == 1,
        record_events: false,
        replay: sc.schedule.clone(),
        rw_writer_pref: sc.c("rw_pref") == 1,
    }
}

pub fn gen_sched_cfg(sc: &mut Scenario, rng: &mut Rng, expected_steps: u64) {
    let strat = rng.weighted(&[4, 3, 3]) as u64;
    sc.set("strategy", strat);
    match strat {
        1 => sc.set("sticky_p", *rng.pick(&[500, 800, 950])),
        2 => {
            sc.set("pct_depth", rng.range(2, 4));
            sc.set("pct_steps", expected_steps);
        }
        _ => {}
    }
    sc.set("now_jitter_ns", *rng.pick(&[0, 0, 50, 2_000, 200_000]));
    sc.set("spurious_pm", *rng.pick(&[0, 0, 30, 200]));
}

fn exec_sched(sc: &Scenario) -> Report {
    let sc2 = sc.clone();
    let cfg = sched_config(sc);
    let (res, out) = World::run(cfg, move || {
        let sc = sc2;
        let mut r = Report::default();
        let term = if sc.c("visible") == 1 {
            Some(SimTerm::new(sc.c("w").max(1) as u16, 30))
        } else {
            None
        };
        let pb = mk_bar(&sc, &term);
        if sc.c("ticker_ms") > 0 {
            pb.enable_steady_tick(std::time::Duration::from_millis(sc.c("ticker_ms")));
        }
        let started = Arc::new(AtomicU64::new(0));
        let completed = Arc::new(AtomicU64::new(0));
        let monotone = sc
            .threads
            .iter()
            .flatten()
            .all(|o| o.k != "dec" && !(o.k == "inc" && o.n0() > (1 << 40)))
            && sc.c("stores_only") != 1;
        let violations: Arc<std::sync::Mutex<Vec<(String, String)>>> = Arc::new(std::sync::Mutex::new(vec![]));
        let mut expected: u64 = 0;
        // (the amounts are small: no saturation, so that the order does not matter)
        let mut expected_len: u64 = sc.c("len0");
        for o in sc.threads.iter().flatten() {
            match o.k.as_str() {
                "inc" => expected = expected.wrapping_add(o.n0()),
                "dec" => expected = expected.wrapping_sub(o.n0()),
                "inc_length" => expected_len += o.n0(),
                "dec_length" => expected_len -= o.n0().min(expected_len),
                _ => {}
            }
        }
        let mut handles = vec![];
        // share_by_ref: all threads use ONE never-cloned handle through an Arc<ProgressBar>
        // (ProgressBar is Sync); otherwise every thread gets its own clone
        let by_ref = sc.c("share_by_ref") == 1 && sc.c("ticker_ms") == 0;
        let shared: Option<Arc<ProgressBar>> = if by_ref { Some(Arc::new(mk_bar(&sc, &term))) } else { None };
        let pb = match &shared {
            Some(_) => pb,
            None => pb,
        };
        for (ti, ops) in sc.threads.iter().enumerate().skip(1) {
            if let Some(sh) = &shared {
                let sh = sh.clone();
                let ops = ops.clone();
                let started = started.clone();
                let completed = completed.clone();
                let violations = violations.clone();
                handles.push(verif_simrt::thread::spawn_named("user", move || {
                    run_thread_ops(&sh, &ops, &started, &completed, monotone, &violations, ti);
                }));
                continue;
            }
            // every thread gets its own clone (odd threads: a clone of a clone)
            let h = if ti % 2 == 1 { pb.clone().clone() } else { pb.clone() };
            let ops = ops.clone();
            let started = started.clone();
            let completed = completed.clone();
            let violations = violations.clone();
            handles.push(verif_simrt::thread::spawn_named("user", move || {
                run_thread_ops(&h, &ops, &started, &completed, monotone, &violations, ti);
                drop(h);
            }));
        }
        let ops0 = sc.threads.first().cloned().unwrap_or_default();
        match &shared {
            Some(sh) => run_thread_ops(sh, &ops0, &started, &completed, monotone, &violations, 0),
            None => run_thread_ops(&pb, &ops0, &started, &completed, monotone, &violations, 0),
        }
        for h in handles {
            if let Err(p) = h.join() {
                r.violate(
                    "C07.no_panic",
                    format!("worker thread panicked: {}", verif_simrt::sched::panic_message(&p)),
                );
            }
        }
        let fin = match &shared {
            Some(sh) => sh.position(),
            None => pb.position(),
        };
        if sc.c("stores_only") == 1 {
            // only absolute stores ran (set_position / finish / reset, in any interleaving): the
            // final position is the value of whichever store came last
            let mut allowed: Vec<u64> = vec![0];
            for o in sc.threads.iter().flatten() {
                match o.k.as_str() {
                    "set_position" => allowed.push(o.n0()),
                    "finish" => allowed.push(sc.c("len0")),
                    _ => {}
                }
            }
            if !allowed.contains(&fin) {
                r.violate(
                    "C07.position_model",
                    format!("after concurrent absolute stores position() = {fin}, a value nobody stored (stored: {allowed:?})"),
                );
            }
        } else if fin != expected {
            r.violate(
                "C07.lost_update",
                format!("after all threads joined position() = {fin}, wrapping sum of all inc/dec = {expected}"),
            );
        }
        let fin_len = match &shared {
            Some(sh) => sh.length(),
            None => pb.length(),
        };
        let expected_len_opt = if sc.c("len_known") == 1 { Some(expected_len) } else { None };
        if fin_len != expected_len_opt {
            r.violate(
                "C07.lost_update",
                format!("after all threads joined length() = {fin_len:?}, the initial length plus all inc_length minus all dec_length = {expected_len}"),
            );
        }
        for (rule, d) in violations.lock().unwrap().iter() {
            r.violate(rule, d.clone());
        }
        r.nontrivial = sc.threads.iter().filter(|t| !t.is_empty()).count() >= 2;
        if sc.c("ticker_ms") > 0 {
            r.probe("with_ticker");
        }
        drop(pb);
        r
    });
    finish_report(res, out)
}

fn run_thread_ops(
    h: &ProgressBar,
    ops: &[Op],
    started: &AtomicU64,
    completed: &AtomicU64,
    monotone: bool,
    violations: &std::sync::Mutex<Vec<(String, String)>>,
    ti: usize,
) {
    for (i, op) in ops.iter().enumerate() {
        let a = op.n0();
        let res = match op.k.as_str() {
            "inc" => {
                started.fetch_add(a, Ordering::SeqCst);
                let r = call(|| h.inc(a));
                completed.fetch_add(a, Ordering::SeqCst);
                r
            }
            "dec" => call(|| h.dec(a)),
            "set_position" => call(|| h.set_position(a)),
            "finish" => call(|| h.finish()),
            "reset" => call(|| h.reset()),
            "inc_length" => call(|| h.inc_length(a)),
            "dec_length" => call(|| h.dec_length(a)),
            "tick" => call(|| h.tick()),
            // calls that are not part of the position-defining history: they must not disturb it
            "neutral" => call(|| match a % 7 {
                0 => h.reset_elapsed(),
                1 => h.reset_eta(),
                2 => h.set_message("m"),
                3 => h.set_prefix("p"),
                4 => h.set_tab_width(4),
                5 => {
                    let _ = (h.eta(), h.per_sec(), h.elapsed(), h.duration(), h.length(), h.message());
                }
                _ => h.println("l"),
            }),
            "get" => {
                let lo = completed.load(Ordering::SeqCst);
                let r = call(|| h.position());
                let hi = started.load(Ordering::SeqCst);
                if let (Ok(p), true) = (&r, monotone) {
                    if *p < lo || *p > hi {
                        violations.lock().unwrap().push((
                            "C07.unreachable_position".into(),
                            format!("thread {ti} op#{i}: observed position() = {p}, but completed increments sum to {lo} and started ones to {hi}"),
                        ));
                    }
                }
                r.map(|_| ())
            }
            "advance" => {
                verif_simrt::sched::advance(a);
                Ok(())
            }
            "yield" => {
                verif_simrt::sched::yield_now();
                Ok(())
            }
            _ => Ok(()),
        };
        if let Err(e) = res {
            violations
                .lock()
                .unwrap()
                .push(("C07.no_panic".into(), format!("thread {ti} op#{i} {} panicked: {e}", op.short())));
        }
    }
}

impl Check for C07 {
    fn id(&self) -> &'static str {
        "C07"
    }
    fn rule_text(&self) -> String {
        "seq: PRNG histories (1..40 ops) of (optionally with_position at construction) inc/dec/set_position/reset/finish*/abandon*/finish_using_style/update(set_pos,set_len)/set_length/inc_length/dec_length/unset_length/clone/drop with arguments biased to u64 boundaries, hidden and visible bars; after every call position()/length()/is_finished()/ProgressState view/fraction() are compared with a wrapping-u64 + saturating-Option model and every call is wrapped in catch_unwind. sched: 2..8 simulated threads each holding its own clone (or clone of a clone) doing 1..20 inc/dec/inc_length/dec_length/tick/get and position-neutral calls (reset_elapsed/reset_eta/set_message/set_prefix/set_length/getters/println) under a seeded random/sticky/PCT scheduler with every atomic load/store/RMW a scheduling point, with and without a steady ticker; oracle = wrapping sum after join + reachable positions. Non-trivial: seq = history of >= 2 ops containing a boundary argument (0 or > 2^62); sched = at least two threads with operations. Distinct = distinct scenario hash.".into()
    }
    fn assumptions(&self) -> Vec<String> {
        vec![
            "verif_simrt scheduler serialises simulated threads; real parallel weak-memory effects are not explored (atomics are modelled as sequentially consistent scheduling points)".into(),
            "overflow-checks are enabled in the build, so an arithmetic overflow inside the library is a panic".into(),
        ]
    }
    fn budget(&self, tier: Tier) -> Budget {
        match tier {
            Tier::Quick => Budget { runs: 120_000, wall_s: 90 },
            Tier::Thorough => Budget { runs: 1_500_000, wall_s: 600 },
        }
    }
    fn corpus(&self) -> Vec<Scenario> {
        let mut v = vec![];
        // overflow at the u64 boundary, as in the baseline's test_pbar_overflow but observed
        let mut s = Scenario::new("C07", "seq", 7);
        s.set("len_known", 1);
        s.set("len0", 1);
        s.set("visible", 1);
        s.set("w", 40);
        s.threads = vec![vec![
            Op::new("inc").n(2),
            Op::new("inc").n(u64::MAX),
            Op::new("dec").n(3),
            Op::new("set_length").n(u64::MAX),
            Op::new("inc_length").n(5),
            Op::new("dec_length").n(u64::MAX),
            Op::new("dec_length").n(1),
            Op::new("finish").n(0),
        ]];
        v.push(s);
        let mut s = Scenario::new("C07", "sched", 8);
        s.set("atomics_yield", 1);
        s.set("visible", 0);
        s.threads = vec![
            vec![Op::new("inc").n(1), Op::new("get")],
            vec![Op::new("inc").n(2), Op::new("inc").n(3)],
            vec![Op::new("inc").n(4), Op::new("get")],
        ];
        v.push(s);
        v
    }
    fn gen(&self, rng: &mut Rng, tier: Tier, _index: u64) -> Scenario {
        let sched = rng.chance(1, 4);
        if !sched {
            let mut sc = Scenario::new("C07", "seq", rng.next_u64());
            sc.set("visible", rng.chance(1, 2) as u64);
            sc.set("w", *rng.pick(&[1, 5, 20, 80]));
            sc.set("hz", *rng.pick(&[0, 0, 20]));
            sc.set("on_finish", rng.below(5));
            sc.set("len_known", rng.chance(3, 4) as u64);
            sc.set("len0", boundary_u64(rng));
            if rng.chance(1, 6) {
                sc.set("ticker_ms", *rng.pick(&[1, 50, 3_600_000]));
            }
            if rng.chance(1, 5) {
                sc.set("with_pos", 1);
                sc.set("pos0", boundary_u64(rng));
            }
            let n = match tier {
                Tier::Quick => rng.range(1, 25),
                Tier::Thorough => rng.range(1, 40),
            };
            let mut ops = vec![];
            for _ in 0..n {
                let k = rng.weighted(&[14, 10, 8, 3, 5, 2, 4, 4, 6, 5, 5, 2, 2, 2, 2, 1, 6]);
                let a = boundary_u64(rng);
                let hsel = rng.below(6);
                let op = match k {
                    0 => Op::new("inc").n(a).n(hsel),
                    1 => Op::new("dec").n(a).n(hsel),
                    2 => Op::new("set_position").n(a).n(hsel),
                    3 => Op::new("reset"),
                    4 => Op::new("finish").n(rng.below(5)).n(hsel),
                    5 => Op::new("finish_using_style"),
                    6 => Op::new("update_pos").n(a),
                    7 => Op::new("update_len").n(a),
                    8 => Op::new("set_length").n(a),
                    9 => Op::new("inc_length").n(a),
                    10 => Op::new("dec_length").n(a),
                    11 => Op::new("unset_length"),
                    12 => Op::new(*rng.pick(&["tick", "tick", "reset_elapsed", "reset_eta"])),
                    13 => Op::new("set_message"),
                    14 => Op::new("clone"),
                    15 => Op::new("drop_clone").n(rng.below(4)),
                    _ => Op::new("advance").n(*rng.pick(&[0, 1, 999_999, 1_000_000, 50_000_000, 3_600_000_000_000])),
                };
                ops.push(op);
            }
            sc.threads = vec![ops];
            sc
        } else {
            let mut sc = Scenario::new("C07", "sched", rng.next_u64());
            sc.set("atomics_yield", 1);
            sc.set("visible", rng.chance(1, 3) as u64);
            sc.set("w", 40);
            sc.set("hz", *rng.pick(&[0, 20]));
            sc.set("len_known", 1);
            sc.set("len0", 1_000_000);
            sc.set("ticker_ms", *rng.pick(&[0, 0, 1, 50]));
            sc.set("share_by_ref", rng.chance(1, 3) as u64);
            let nt = match tier {
                Tier::Quick => rng.range(2, 5),
                Tier::Thorough => rng.range(2, 8),
            };
            let wrapping = rng.chance(1, 5);
            if rng.chance(1, 6) {
                // absolute stores only: every interleaving ends with the value of some store
                sc.set("stores_only", 1);
                let mut threads = vec![];
                let mut v = 1u64;
                for _ in 0..nt {
                    let mut ops = vec![];
                    for _ in 0..rng.range(1, 6) {
                        v += rng.range(1, 1000);
                        ops.push(match rng.below(8) {
                            0 => Op::new("finish"),
                            1 => Op::new("reset"),
                            2 => Op::new("get"),
                            _ => Op::new("set_position").n(v),
                        });
                    }
                    threads.push(ops);
                }
                sc.threads = threads;
                gen_sched_cfg(&mut sc, rng, 60 * nt);
                return sc;
            }
            let mut threads = vec![];
            for _ in 0..nt {
                let n = rng.range(1, if tier == Tier::Quick { 8 } else { 20 });
                let mut ops = vec![];
                for _ in 0..n {
                    let k = rng.weighted(&[10, if wrapping { 5 } else { 0 }, 1, 3, 1, 2, 2]);
                    ops.push(match k {
                        5 => Op::new("neutral").n(rng.below(7)),
                        6 => Op::new(if rng.chance(1, 2) { "inc_length" } else { "dec_length" }).n(rng.range(1, 9)),
                        0 => Op::new("inc").n(if wrapping { boundary_u64(rng) } else { rng.range(0, 9) }),
                        1 => Op::new("dec").n(boundary_u64(rng)),
                        2 => Op::new("tick"),
                        3 => Op::new("get"),
                        _ => Op::new("advance").n(*rng.pick(&[0, 500, 1_000_000, 20_000_000])),
                    });
                }
                threads.push(ops);
            }
            sc.threads = threads;
            gen_sched_cfg(&mut sc, rng, 60 * nt);
            sc
        }
    }
    fn exec(&self, sc: &Scenario) -> Report {
        match sc.mode.as_str() {
            "seq" => exec_seq(sc),
            _ => exec_sched(sc),
        }
    }
    fn shrink_cfg(&self) -> Vec<(&'static str, u64)> {
        vec![("ticker_ms", 0), ("visible", 0), ("hz", 0), ("now_jitter_ns", 0), ("spurious_pm", 0), ("len0", 0)]
    }
    fn extra_evidence(&self) -> Value {
        json!({})
    }
}
