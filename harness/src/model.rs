//! The abstract model behind the terminal-facing properties (C01–C04, C16, C19) and its
//! independent renderer for a restricted, model-computable template family:
//! literals, `{msg}`, `{prefix}`, `{pos}`, `{len}`, the custom key `{obs}` (observation channel,
//! may print a fixed text), template line breaks and line breaks / tabs / SGR sequences in texts.

use unicode_width::UnicodeWidthChar;

#[derive(Clone, Copy, Debug, PartialEq, Eq)]
pub enum Status {
    InProgress,
    DoneVisible,
    DoneHidden,
}

#[derive(Clone, Debug)]
pub struct BarAbs {
    pub id: usize,
    pub pos: u64,
    pub len: Option<u64>,
    pub msg: String,
    pub prefix: String,
    pub template: String,
    pub obs_text: String,
    pub tab_width: usize,
    pub status: Status,
    pub on_finish: u64,
    pub on_finish_msg: String,
    /// lines this bar most recently submitted to its target (None: never drawn)
    pub submitted: Option<Vec<String>>,
    /// all handles dropped
    pub dropped: bool,
    pub removed: bool,
    /// may disappear from the terminal from now on (dropped + println/clear/suspend/remove since)
    pub vanishable: bool,
    /// number of log lines emitted before this bar became static (it cannot sit above those)
    pub min_log: usize,
}

impl BarAbs {
    pub fn new(id: usize, len: Option<u64>, template: &str) -> BarAbs {
        BarAbs {
            id,
            pos: 0,
            len,
            msg: String::new(),
            prefix: String::new(),
            template: template.to_string(),
            obs_text: String::new(),
            tab_width: 8,
            status: Status::InProgress,
            on_finish: 2,
            on_finish_msg: String::new(),
            submitted: None,
            dropped: false,
            removed: false,
            vanishable: false,
            min_log: 0,
        }
    }

    pub fn finished(&self) -> bool {
        self.status != Status::InProgress
    }

    /// Apply a finish behaviour (0 finish, 1 finish_with_message, 2 finish_and_clear, 3 abandon,
    /// 4 abandon_with_message) to the abstract state.
    pub fn apply_finish(&mut self, code: u64, msg: &str) {
        let code = code % 5;
        self.status = if code == 2 { Status::DoneHidden } else { Status::DoneVisible };
        if code <= 2 {
            if let Some(l) = self.len {
                self.pos = l;
            }
        }
        if code == 1 || code == 4 {
            self.msg = msg.to_string();
        }
    }

    pub fn expand(&self, s: &str) -> String {
        s.replace('\t', &" ".repeat(self.tab_width))
    }

    /// Independent rendering of the current abstract state.
    pub fn render(&self) -> Vec<String> {
        if self.status == Status::DoneHidden {
            return vec![];
        }
        let mut lines: Vec<String> = vec![];
        let mut cur = String::new();
        let mut segs: Vec<String> = vec![];
        // tokenise: {key} | \n | literal
        let t: Vec<char> = self.template.chars().collect();
        let mut i = 0;
        let mut lit = String::new();
        while i < t.len() {
            match t[i] {
                // escaped braces are literal text
                '{' if i + 1 < t.len() && t[i + 1] == '{' => {
                    lit.push('{');
                    i += 2;
                }
                '}' if i + 1 < t.len() && t[i + 1] == '}' => {
                    lit.push('}');
                    i += 2;
                }
                '{' if i + 1 < t.len() && (t[i + 1] == ' ' || t[i + 1] == '\t') => {
                    // an opening brace followed by whitespace stands for itself
                    lit.push('{');
                    i += 1;
                }
                '{' if i + 1 < t.len() && t[i + 1] == '\n' => {
                    // ... also followed by a line break, which then is part of the literal text
                    // (not a template line break: it does not close a segment)
                    lit.push('{');
                    lit.push('\n');
                    i += 2;
                }
                '{' => {
                    if !lit.is_empty() {
                        cur.push_str(&self.expand(&lit));
                        lit.clear();
                    }
                    let mut j = i + 1;
                    let mut key = String::new();
                    while j < t.len() && t[j] != '}' {
                        key.push(t[j]);
                        j += 1;
                    }
                    let pos = self.pos;
                    let len = self.len.unwrap_or(pos);
                    // a style attribute - `{msg:.green}` - puts SGR sequences around the value
                    // (colours are on): invisible, but the line is no longer an empty string
                    let is_styled = key.contains(':');
                    if is_styled {
                        cur.push_str("\x1b[1m");
                    }
                    match key.split(':').next().unwrap_or("") {
                        "msg" => cur.push_str(&self.expand(&self.msg)),
                        "prefix" => cur.push_str(&self.expand(&self.prefix)),
                        "pos" => cur.push_str(&pos.to_string()),
                        "len" => cur.push_str(&len.to_string()),
                        "obs" => cur.push_str(&self.expand(&self.obs_text)),
                        _ => {}
                    }
                    if is_styled {
                        cur.push_str("\x1b[0m");
                    }
                    i = j + 1;
                }
                '\n' => {
                    if !lit.is_empty() {
                        cur.push_str(&self.expand(&lit));
                        lit.clear();
                    }
                    segs.push(std::mem::take(&mut cur));
                    i += 1;
                }
                c => {
                    lit.push(c);
                    i += 1;
                }
            }
        }
        if !lit.is_empty() {
            cur.push_str(&self.expand(&lit));
        }
        // every template line break closes a segment; the last segment only counts if non-empty
        let n_closed = segs.len();
        segs.push(cur);
        for (k, seg) in segs.iter().enumerate() {
            if k >= n_closed && seg.is_empty() {
                continue;
            }
            for l in seg.split('\n') {
                lines.push(l.to_string());
            }
        }
        lines
    }
}

/// Strip CSI sequences (the only escape sequences our texts contain).
pub fn strip_sgr(s: &str) -> String {
    let mut out = String::new();
    let mut it = s.chars().peekable();
    while let Some(c) = it.next() {
        if c == '\x1b' {
            if it.peek() == Some(&'[') {
                it.next();
                for d in it.by_ref() {
                    if !(d.is_ascii_digit() || d == ';' || d == '?') {
                        break;
                    }
                }
            }
        } else {
            out.push(c);
        }
    }
    out
}

pub fn text_width(s: &str) -> usize {
    strip_sgr(s)
        .chars()
        .map(|c| UnicodeWidthChar::width(c).unwrap_or(0))
        .sum()
}

/// The rows a line occupies on a terminal of width `w` (xterm wrapping; wide characters that
/// would straddle the margin wrap early). Rows are right-trimmed.
pub fn wrap_rows(line: &str, w: usize) -> Vec<String> {
    let plain = strip_sgr(line);
    let mut rows: Vec<String> = vec![String::new()];
    let mut col = 0;
    for c in plain.chars() {
        let cw = UnicodeWidthChar::width(c).unwrap_or(0);
        if cw == 0 || cw > w {
            continue;
        }
        if col + cw > w {
            rows.push(String::new());
            col = 0;
        }
        rows.last_mut().unwrap().push(c);
        col += cw;
    }
    rows.iter().map(|r| r.trim_end_matches(' ').to_string()).collect()
}

/// Number of rows the statement prescribes for a line: max(1, ceil(columns / W)).
pub fn rows_of(line: &str, w: usize) -> usize {
    let cols = text_width(line);
    std::cmp::max(1, (cols + w - 1) / w)
}

pub fn lines_rows(lines: &[String], w: usize) -> Vec<String> {
    lines.iter().flat_map(|l| wrap_rows(l, w)).collect()
}
