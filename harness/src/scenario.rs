//! Generic, serialisable scenario representation shared by all checks, so that replay files,
//! the minimiser and the evidence writer are property independent.

use std::collections::BTreeMap;

use serde_json::{json, Value};

#[derive(Clone, Debug, PartialEq)]
pub struct Op {
    /// operation kind, e.g. "inc", "println", "advance"
    pub k: String,
    /// numeric arguments
    pub n: Vec<u64>,
    /// string arguments
    pub s: Vec<String>,
}

impl Op {
    pub fn new(k: &str) -> Op {
        Op {
            k: k.to_string(),
            n: vec![],
            s: vec![],
        }
    }
    pub fn n(mut self, v: u64) -> Op {
        self.n.push(v);
        self
    }
    pub fn s(mut self, v: impl Into<String>) -> Op {
        self.s.push(v.into());
        self
    }
    pub fn n0(&self) -> u64 {
        self.n.first().copied().unwrap_or(0)
    }
    pub fn n1(&self) -> u64 {
        self.n.get(1).copied().unwrap_or(0)
    }
    pub fn n2(&self) -> u64 {
        self.n.get(2).copied().unwrap_or(0)
    }
    pub fn s0(&self) -> &str {
        self.s.first().map(|s| s.as_str()).unwrap_or("")
    }
    pub fn to_json(&self) -> Value {
        // u64 values above 2^53 survive because serde_json keeps u64 exactly
        json!({"k": self.k, "n": self.n, "s": self.s})
    }
    pub fn from_json(v: &Value) -> Option<Op> {
        Some(Op {
            k: v.get("k")?.as_str()?.to_string(),
            n: v
                .get("n")?
                .as_array()?
                .iter()
                .map(|x| x.as_u64())
                .collect::<Option<Vec<_>>>()?,
            s: v
                .get("s")?
                .as_array()?
                .iter()
                .map(|x| x.as_str().map(|s| s.to_string()))
                .collect::<Option<Vec<_>>>()?,
        })
    }
    pub fn short(&self) -> String {
        let mut s = self.k.clone();
        if !self.n.is_empty() || !self.s.is_empty() {
            s.push('(');
            let mut parts: Vec<String> = self.n.iter().map(|x| x.to_string()).collect();
            parts.extend(self.s.iter().map(|x| format!("{x:?}")));
            s.push_str(&parts.join(","));
            s.push(')');
        }
        s
    }
}

#[derive(Clone, Debug, PartialEq)]
pub struct Scenario {
    pub prop: String,
    /// sub-workload of the property ("seq", "sched", ...)
    pub mode: String,
    /// seed of the simulated world (scheduler decisions, injected faults, clock jitter)
    pub seed: u64,
    pub cfg: BTreeMap<String, u64>,
    pub strs: BTreeMap<String, String>,
    /// one operation list per simulated user thread
    pub threads: Vec<Vec<Op>>,
    /// explicit schedule (thread ids at scheduling points); None = derive from seed
    pub schedule: Option<Vec<u32>>,
}

impl Scenario {
    pub fn new(prop: &str, mode: &str, seed: u64) -> Scenario {
        Scenario {
            prop: prop.to_string(),
            mode: mode.to_string(),
            seed,
            cfg: BTreeMap::new(),
            strs: BTreeMap::new(),
            threads: vec![],
            schedule: None,
        }
    }
    pub fn c(&self, key: &str) -> u64 {
        self.cfg.get(key).copied().unwrap_or(0)
    }
    pub fn set(&mut self, key: &str, v: u64) {
        self.cfg.insert(key.to_string(), v);
    }
    pub fn st(&self, key: &str) -> &str {
        self.strs.get(key).map(|s| s.as_str()).unwrap_or("")
    }
    pub fn set_str(&mut self, key: &str, v: impl Into<String>) {
        self.strs.insert(key.to_string(), v.into());
    }
    pub fn n_ops(&self) -> usize {
        self.threads.iter().map(|t| t.len()).sum()
    }
    pub fn to_json(&self) -> Value {
        json!({
            "prop": self.prop,
            "mode": self.mode,
            "seed": self.seed,
            "cfg": self.cfg,
            "strs": self.strs,
            "threads": self.threads.iter().map(|t| t.iter().map(|o| o.to_json()).collect::<Vec<_>>()).collect::<Vec<_>>(),
            "schedule": self.schedule,
        })
    }
    pub fn from_json(v: &Value) -> Option<Scenario> {
        let mut cfg = BTreeMap::new();
        for (k, x) in v.get("cfg")?.as_object()? {
            cfg.insert(k.clone(), x.as_u64()?);
        }
        let mut strs = BTreeMap::new();
        for (k, x) in v.get("strs")?.as_object()? {
            strs.insert(k.clone(), x.as_str()?.to_string());
        }
        let mut threads = vec![];
        for t in v.get("threads")?.as_array()? {
            let mut ops = vec![];
            for o in t.as_array()? {
                ops.push(Op::from_json(o)?);
            }
            threads.push(ops);
        }
        let schedule = match v.get("schedule") {
            Some(Value::Array(a)) => Some(
                a.iter()
                    .map(|x| x.as_u64().map(|y| y as u32))
                    .collect::<Option<Vec<_>>>()?,
            ),
            _ => None,
        };
        Some(Scenario {
            prop: v.get("prop")?.as_str()?.to_string(),
            mode: v.get("mode")?.as_str()?.to_string(),
            seed: v.get("seed")?.as_u64()?,
            cfg,
            strs,
            threads,
            schedule,
        })
    }
    /// Human readable one-liner for evidence samples.
    pub fn short(&self) -> Value {
        json!({
            "mode": self.mode,
            "seed": self.seed,
            "cfg": self.cfg,
            "strs": self.strs,
            "threads": self.threads.iter().map(|t| t.iter().map(|o| o.short()).collect::<Vec<_>>()).collect::<Vec<_>>(),
        })
    }
    pub fn hash(&self) -> u64 {
        let s = self.to_json().to_string();
        let mut h: u64 = 0xcbf2_9ce4_8422_2325;
        for b in s.bytes() {
            h ^= b as u64;
            h = h.wrapping_mul(0x0000_0100_0000_01B3);
        }
        h
    }
}

/// What one execution of a scenario reports back to the engine.
#[derive(Clone, Debug, Default)]
pub struct Report {
    /// (rule id, human detail) — rule ids are stable strings like "C07.position_model"
    pub violation: Option<(String, String)>,
    /// the harness itself is broken (emulator disagreement, step cap, ...): exit 2, never an alarm
    pub harness_error: Option<String>,
    /// run could not be decided (e.g. candidate set overflow); counted, never an alarm
    pub inconclusive: bool,
    /// scenario satisfied the property's non-triviality rule
    pub nontrivial: bool,
    pub sim_ns: u64,
    pub steps: u64,
    pub context_switches: u64,
    pub interleaving_sig: u64,
    pub multi_enabled_points: u64,
    /// faults that actually fired, by kind
    pub faults: BTreeMap<String, u64>,
    /// probe counters (harness side and library side)
    pub probes: BTreeMap<String, u64>,
    pub schedule: Vec<u32>,
    /// number of sub-executions (e.g. fault positions enumerated) folded into this report
    pub sub_runs: u64,
    /// full event-log hash for determinism checking
    pub trace_hash: u64,
}

impl Report {
    pub fn fault(&mut self, k: &str) {
        *self.faults.entry(k.to_string()).or_insert(0) += 1;
    }
    pub fn probe(&mut self, k: &str) {
        *self.probes.entry(k.to_string()).or_insert(0) += 1;
    }
    pub fn probe_n(&mut self, k: &str, n: u64) {
        *self.probes.entry(k.to_string()).or_insert(0) += n;
    }
    pub fn violate(&mut self, rule: &str, detail: impl Into<String>) {
        if self.violation.is_none() {
            self.violation = Some((rule.to_string(), detail.into()));
        }
    }
    pub fn absorb_outcome(&mut self, o: &verif_simrt::Outcome) {
        self.sim_ns += o.clock_end_ns.saturating_sub(verif_simrt::sched::EPOCH_NS);
        self.steps += o.steps;
        self.context_switches += o.context_switches;
        self.interleaving_sig ^= o.sig;
        self.multi_enabled_points += o.multi_enabled_points;
        self.trace_hash = self.trace_hash.rotate_left(7) ^ o.sig;
        for (k, v) in &o.probes {
            *self.probes.entry(k.to_string()).or_insert(0) += v;
        }
        if o.spurious_wakes > 0 {
            *self.faults.entry("spurious_wakeup".into()).or_insert(0) += o.spurious_wakes;
        }
        if o.timer_jumps > 0 {
            *self.probes.entry("timer_jump".into()).or_insert(0) += o.timer_jumps;
        }
        if o.step_cap_hit && self.violation.is_none() {
            self.harness_error = Some("step cap hit".into());
        }
        self.schedule = o.schedule.clone();
    }
}
