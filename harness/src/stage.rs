//! Stage: the shared executor for bar / MultiProgress histories on a SimTerm, run in lock-step
//! with the abstract model, plus the transcript oracle (expected terminal contents as a
//! pattern: log lines, optional static finished bars, the live region).

use std::collections::HashSet;
use std::sync::{Arc, Mutex as StdMutex};

use indicatif::style::ProgressTracker;
use indicatif::{MultiProgress, MultiProgressAlignment, ProgressBar, ProgressDrawTarget, ProgressState, ProgressStyle, TermLike};
use verif_simrt::time::Instant;

use crate::common::*;
use crate::model::*;
use crate::scenario::{Op, Report, Scenario};
use crate::simterm::SimTerm;

// ------------------------------------------------------------------------------------------
// Observation channel: a custom template key
// ------------------------------------------------------------------------------------------

#[derive(Debug, Default)]
pub struct ObsShared {
    /// (pos, len, finished) seen by every `write` call
    pub writes: Vec<(u64, Option<u64>, bool)>,
    /// number of frames the terminal had painted when the corresponding `write` happened
    pub write_flushes: Vec<u64>,
    pub term: Option<SimTerm>,
    pub ticks: u64,
    pub resets: u64,
    /// (pos, finished) of the state handed to the last `reset` call
    pub last_reset_state: Option<(u64, bool)>,
    /// generation of the tracker instance that was written / ticked last
    pub last_write_gen: u64,
    pub last_tick_gen: u64,
}

#[derive(Clone)]
pub struct Obs {
    pub shared: Arc<StdMutex<ObsShared>>,
    pub text: String,
    /// which instance this is (a style set later registers a tracker of a later generation)
    pub gen: u64,
}

/// how the custom key hands its text to the formatter: 0 = one write_str, 1 = write_char per
/// character, 2 = formatted with `{}` per character (Display for char)
pub fn obs_write(w: &mut dyn std::fmt::Write, text: &str, mode: u64) {
    match mode % 3 {
        0 => {
            let _ = w.write_str(text);
        }
        1 => {
            for c in text.chars() {
                let _ = w.write_char(c);
            }
        }
        _ => {
            for c in text.chars() {
                let _ = write!(w, "{}", c);
            }
        }
    }
}

impl ProgressTracker for Obs {
    fn clone_box(&self) -> Box<dyn ProgressTracker> {
        Box::new(self.clone())
    }
    fn tick(&mut self, _state: &ProgressState, _now: Instant) {
        let mut sh = self.shared.lock().unwrap();
        sh.ticks += 1;
        sh.last_tick_gen = self.gen;
    }
    fn reset(&mut self, state: &ProgressState, _now: Instant) {
        let mut sh = self.shared.lock().unwrap();
        sh.resets += 1;
        sh.last_reset_state = Some((state.pos(), state.is_finished()));
    }
    fn write(&self, state: &ProgressState, w: &mut dyn std::fmt::Write) {
        {
            let mut sh = self.shared.lock().unwrap();
            let f = sh.term.as_ref().map_or(0, |t| t.flushes());
            sh.writes.push((state.pos(), state.len(), state.is_finished()));
            sh.last_write_gen = self.gen;
            sh.write_flushes.push(f);
        }
        // the write mode is encoded in the first byte of the shared ticks' parity-free field: keep
        // it simple and derive it from the text length so that it is deterministic per text
        obs_write(w, &self.text, self.text.len() as u64);
    }
}

pub fn make_style(template: &str, obs: &Arc<StdMutex<ObsShared>>, obs_text: &str) -> Result<ProgressStyle, String> {
    if template.matches("{obs}").count() + template.matches("{obs:").count() != 1 {
        return Err("harness: template must contain the observation key {obs} exactly once".into());
    }
    // the template must stay inside the model-renderable family (the minimiser shrinks strings):
    // the five keys, plain or with one of the style attributes of `KEY_STYLES`
    let mut rest = template;
    while let Some(i) = rest.find(|c| c == '{' || c == '}') {
        let tail = &rest[i..];
        if let Some(k) = ["{{", "}}", "{ ", "{\t", "{\n"].iter().find(|k| tail.starts_with(**k)) {
            rest = &tail[k.len()..];
            continue;
        }
        let mut matched = None;
        for key in ["obs", "msg", "prefix", "pos", "len"] {
            for st in std::iter::once("").chain(crate::gen::KEY_STYLES.iter().copied()) {
                let form = format!("{{{key}{st}}}");
                if tail.starts_with(&form) {
                    matched = Some(form.len());
                }
            }
        }
        match matched {
            Some(n) => rest = &tail[n..],
            None => return Err("harness: template outside the model-renderable family".into()),
        }
    }
    ProgressStyle::with_template(template)
        .map(|s| {
            s.with_key(
                "obs",
                Obs {
                    shared: obs.clone(),
                    text: obs_text.to_string(),
                    gen: 0,
                },
            )
        })
        .map_err(|e| e.to_string())
}

// ------------------------------------------------------------------------------------------
// Stage
// ------------------------------------------------------------------------------------------

thread_local! {
    /// the console::Term of the current stage's pty (pty mode only)
    static PTY_TERM: std::cell::RefCell<Option<console::Term>> = const { std::cell::RefCell::new(None) };
}

pub struct Slot {
    /// a style taken earlier with pb.style(), with the template / custom-key text it had then
    pub style_snapshot: Option<(ProgressStyle, String, String)>,
    pub handles: Vec<ProgressBar>,
    pub abs: BarAbs,
    pub obs: Arc<StdMutex<ObsShared>>,
    pub in_mp: bool,
}

#[derive(Clone, Debug, PartialEq)]
pub enum Item {
    Log(String),
    /// a dropped, visibly finished bar that is no longer behind a live bar
    Static(usize),
}

#[derive(Clone, Debug, Default)]
pub struct Rules {
    /// compare the whole transcript with the model after every call
    pub transcript: bool,
    /// cursor left on a fresh line below everything
    pub cursor: bool,
    /// forced calls must paint
    pub forced_paint: bool,
    /// C19: the region may be cut to the rows that fit the terminal height
    pub height_cut: bool,
    /// property id used in rule names
    pub prop: &'static str,
}

pub struct Stage {
    pub term: SimTerm,
    pub mp: Option<MultiProgress>,
    pub multi: bool,
    pub bars: Vec<Slot>,
    /// logical order (model) of the bars that are members of the MultiProgress
    pub members: Vec<usize>,
    pub items: Vec<Item>,
    pub region_painted: bool,
    /// leading dropped members may exist inside the implementation that an index-based
    /// insert would count (until the next painted frame)
    pub unreaped_possible: bool,
    /// full heights (rows) of the bars the model retired although the implementation may still
    /// hold them as members until the next painted frame
    pub unreaped_rows: usize,
    pub removed_since_paint: bool,
    pub w: usize,
    pub h: usize,
    pub hz: u64,
    pub bottom: bool,
    /// bottom alignment was active at some point: blank padding rows may persist
    pub bottom_ever: bool,
    pub rules: Rules,
    pub op_idx: u64,
    pub last_transcript: Vec<String>,
    pub last_region_bottom: usize,
    pub skipped_ops: u64,
    pub out_of_scope: Option<String>,
    pub log_count: usize,
    /// result of the last io::Result-returning call (mp.println / mp.clear): Some(is_err)
    pub last_io_err: Option<bool>,
    /// for the check after the current call only: what the call's bar showed at the last frame
    /// painted during the call (a call with several draws may end with an unpainted one)
    pub shown_override: Option<(usize, Vec<String>)>,
    /// what each member showed in the last painted frame, and whether that frame was cut at the
    /// terminal height
    pub last_painted: std::collections::BTreeMap<usize, Vec<String>>,
    /// renders (writes of the observation key) of all bars before the current call
    pub renders0: usize,
    /// a line with a double-width character that wraps (or may wrap) was seen: KF-WIDE-WRAP
    pub wide_wrap: bool,
    pub last_frame_cut: bool,
}

pub struct OpResult {
    pub skipped: bool,
    pub flushed: bool,
    pub panic: Option<String>,
    pub calls: u64,
}

fn target_for(term: &SimTerm, hz: u64) -> ProgressDrawTarget {
    if let Some(ct) = PTY_TERM.with(|c| c.borrow().clone()) {
        // pty mode: a real console::Term on the slave side (always rate limited)
        return ProgressDrawTarget::term(ct, hz.clamp(1, 255) as u8);
    }
    if hz > 0 {
        ProgressDrawTarget::term_like_with_hz(Box::new(term.clone()), hz.min(255) as u8)
    } else {
        ProgressDrawTarget::term_like(Box::new(term.clone()))
    }
}

impl Stage {
    pub fn new(sc: &Scenario, rules: Rules) -> Stage {
        let w = sc.c("w").max(1) as usize;
        let h = sc.c("h").max(1) as usize;
        let mut term = SimTerm::new(w as u16, h as u16);
        PTY_TERM.with(|c| *c.borrow_mut() = None);
        if sc.c("pty") == 1 {
            match SimTerm::new_pty(w as u16, h as u16) {
                Some((t, ct)) => {
                    term = t;
                    PTY_TERM.with(|c| *c.borrow_mut() = Some(ct));
                }
                None => {} // pty unavailable: plain SimTerm (counted by the caller)
            }
        } else if sc.c("xcheck") == 1 {
            term = term.with_xcheck();
        }
        if std::env::var_os("VERIF_TRACE").is_some() {
            term.lock().keep_calls = true;
        }
        if sc.c("buffered") == 1 && sc.c("pty") != 1 {
            term.lock().buffered = true;
        }
        let multi = sc.c("multi") == 1;
        let hz = sc.c("hz");
        let mp = if multi {
            let mp = MultiProgress::with_draw_target(target_for(&term, hz));
            if sc.c("bottom") == 1 {
                mp.set_alignment(MultiProgressAlignment::Bottom);
            }
            Some(mp)
        } else {
            None
        };
        Stage {
            term,
            mp,
            multi,
            bars: vec![],
            members: vec![],
            items: vec![],
            region_painted: false,
            unreaped_possible: false,
            unreaped_rows: 0,
            removed_since_paint: false,
            w,
            h,
            hz: if sc.c("pty") == 1 { hz.clamp(1, 255) } else { hz },
            bottom: sc.c("bottom") == 1,
            bottom_ever: sc.c("bottom") == 1,
            rules,
            op_idx: 0,
            last_transcript: vec![],
            last_region_bottom: 0,
            skipped_ops: 0,
            out_of_scope: None,
            log_count: 0,
            last_io_err: None,
            shown_override: None,
            last_painted: Default::default(),
            renders0: 0,
            wide_wrap: false,
            last_frame_cut: false,
        }
    }

    fn bar_idx(&self, n: u64) -> Option<usize> {
        if self.bars.is_empty() {
            None
        } else {
            Some(n as usize % self.bars.len())
        }
    }

    fn handle(&self, b: usize) -> Option<ProgressBar> {
        self.bars[b].handles.first().cloned()
    }

    fn obs_writes(&self, b: usize) -> usize {
        self.bars[b].obs.lock().unwrap().writes.len()
    }

    /// create a bar from op arguments n=[kind, arg, len_known, len, on_finish, tab_width?] s=[template, finish_msg, obs_text, msg, prefix]
    fn create_bar(&mut self, op: &Op) -> Result<usize, String> {
        let id = self.bars.len();
        let len = if op.n2() == 1 { Some(op.n.get(3).copied().unwrap_or(0)) } else { None };
        let template = op.s0().to_string();
        let fin_msg = op.s.get(1).cloned().unwrap_or_default();
        let obs_text = op.s.get(2).cloned().unwrap_or_default();
        let on_finish = op.n.get(4).copied().unwrap_or(2);
        let obs = Arc::new(StdMutex::new(ObsShared::default()));
        obs.lock().unwrap().term = Some(self.term.clone());
        let style = make_style(&template, &obs, &obs_text)?;
        let target = if self.multi {
            ProgressDrawTarget::hidden()
        } else {
            target_for(&self.term, self.hz)
        };
        let mut pb = ProgressBar::with_draw_target(len, target).with_finish(finish_kind(on_finish, &fin_msg));
        let mut abs = BarAbs::new(id, len, &template);
        abs.on_finish = on_finish % 5;
        abs.on_finish_msg = fin_msg;
        abs.obs_text = obs_text;
        // the builder calls are applied in the order selected by n[6] (a permutation of
        // tab width, message, prefix, style)
        let mut steps = vec![0usize, 1, 2, 3];
        let mut code = op.n.get(6).copied().unwrap_or(0) as usize;
        let mut order = vec![];
        while !steps.is_empty() {
            let i = code % steps.len();
            code /= steps.len().max(1);
            order.push(steps.remove(i));
        }
        let mut style = Some(style);
        for step in order {
            match step {
                0 => {
                    if let Some(tw) = op.n.get(5) {
                        if *tw != 8 {
                            pb = pb.with_tab_width(*tw as usize);
                            abs.tab_width = *tw as usize;
                        }
                    }
                }
                1 => {
                    if let Some(m) = op.s.get(3) {
                        if !m.is_empty() {
                            pb = pb.with_message(m.clone());
                            abs.msg = m.clone();
                        }
                    }
                }
                2 => {
                    if let Some(p) = op.s.get(4) {
                        if !p.is_empty() {
                            pb = pb.with_prefix(p.clone());
                            abs.prefix = p.clone();
                        }
                    }
                }
                _ => pb.set_style(style.take().unwrap()),
            }
        }
        self.bars.push(Slot {
            style_snapshot: None,
            handles: vec![pb],
            abs,
            obs,
            in_mp: false,
        });
        Ok(id)
    }

    /// println / clear / suspend / remove happened: the guarantee that a visibly finished bar
    /// keeps its final rendering after being dropped ends for every bar finished so far
    fn mark_vanishable(&mut self) {
        for s in self.bars.iter_mut() {
            if (s.abs.dropped || s.abs.status == Status::DoneVisible) && !s.abs.removed {
                s.abs.vanishable = true;
            }
        }
    }

    /// `by_paint`: called right after a painted frame (the implementation reaps the leading
    /// dropped bars in that very draw); otherwise after a drop without / before its reaping.
    fn retire_leading(&mut self, by_paint: bool) -> Vec<usize> {
        let mut retired = vec![];
        while let Some(&b) = self.members.first() {
            if !self.bars[b].abs.dropped {
                break;
            }
            if self.last_frame_cut {
                // the last frame was cut at the terminal height: only the lines of this bar that
                // were painted can remain as static text
                let painted = self.last_painted.get(&b).cloned().unwrap_or_default();
                let full = self.bars[b].abs.submitted.clone().unwrap_or_default();
                if painted.len() < full.len() {
                    if !by_paint {
                        // the implementation may not have reaped this bar yet: it would still
                        // paint it once there is room
                        self.out_of_scope = Some("a dropped bar that did not fit the last frame may be painted later".into());
                    }
                    self.bars[b].abs.submitted = Some(painted);
                    self.bars[b].abs.vanishable = true;
                }
            }
            self.members.remove(0);
            retired.push(b);
            let lines_empty = self.bars[b].abs.submitted.as_ref().map_or(true, |l| l.is_empty());
            if !lines_empty {
                self.bars[b].abs.min_log = self.log_count;
                self.items.push(Item::Static(b));
            }
        }
        retired
    }

    fn push_log(&mut self, text: &str, via_println: bool) {
        if via_println && text.is_empty() {
            self.items.push(Item::Log(String::new()));
            self.log_count += 1;
            return;
        }
        for l in text.lines() {
            self.items.push(Item::Log(l.to_string()));
            self.log_count += 1;
        }
    }

    /// Execute one operation against the real library and the model.
    pub fn exec(&mut self, op: &Op, r: &mut Report) -> OpResult {
        self.op_idx += 1;
        self.shown_override = None;
        self.term.set_op(self.op_idx);
        let calls0 = self.term.n_calls();
        let flush0 = self.term.flushes();
        self.renders0 = self.bars.iter().map(|s| s.obs.lock().unwrap().writes.len()).sum();
        let mut res = OpResult {
            skipped: false,
            flushed: false,
            panic: None,
            calls: 0,
        };
        let k = op.k.as_str();
        if self.term.is_pty() && matches!(k, "iter_exhaust" | "iter_partial" | "burn" | "suspend" | "mp_suspend" | "sleep" | "enable_steady_tick") {
            // pty mode observes frames per call (bytes arriving on the master side); calls that
            // paint several frames, or whose closure writes to the SimTerm directly, are left out
            res.skipped = true;
            self.skipped_ops += 1;
            return res;
        }
        // texts must stay inside the generated family (the minimiser shrinks strings)
        for t in &op.s {
            if !escapes_well_formed(t) {
                r.harness_error = Some("harness: text with a malformed escape sequence".into());
                return res;
            }
            if t.lines().any(|l| has_wide(l) && text_width(l) + 12 > self.w) {
                // a double-width character in a line that may wrap: known finding KF-WIDE-WRAP
                // (rows are counted as ceil(columns / W); a terminal wraps a 2-cell character
                // early when only one cell is left)
                self.wide_wrap = true;
            }
        }
        // ---- operations that do not address an existing bar
        match k {
            "advance" => {
                verif_simrt::sched::advance_quiet(op.n0());
                return res;
            }
            "resize_h" => {
                // the window gets another height between two calls (the library is not told; it
                // asks the terminal for its size at every draw)
                let nh = op.n0().clamp(1, 200) as u16;
                let old_h = self.h;
                if self.term.resize_height(nh) {
                    self.h = nh as usize;
                    r.probe(match self.h.cmp(&old_h) {
                        std::cmp::Ordering::Greater => "height_grown",
                        std::cmp::Ordering::Less => "height_shrunk",
                        _ => "height_same",
                    });
                } else {
                    res.skipped = true;
                    self.skipped_ops += 1;
                }
                return res;
            }
            "sleep" => {
                // blocks the calling simulated thread; other threads (steady tickers) run meanwhile
                verif_simrt::sched::sleep(op.n0());
                res.flushed = self.term.flushes() > flush0;
                return res;
            }
            "new" | "add" => {
                // n[0]: 9 = standalone, 0 add, 1 insert(i), 2 insert_from_back(i), 3 insert_before(ref), 4 insert_after(ref)
                let kind = op.n0();
                if !self.multi {
                    if !self.bars.is_empty() {
                        res.skipped = true;
                        self.skipped_ops += 1;
                        return res;
                    }
                    match call(|| self.create_bar(op)) {
                        Ok(Ok(_)) => {}
                        Ok(Err(e)) => r.harness_error = Some(format!("template rejected: {e}")),
                        Err(p) => res.panic = Some(p),
                    }
                    return res;
                }
                let arg = op.n1();
                // model position
                let pos: usize = match kind {
                    1 | 2 => {
                        // (only the transcript oracle needs this restriction; without it the
                        // decision must not depend on what the terminal did)
                        if self.unreaped_possible && self.rules.transcript {
                            res.skipped = true;
                            self.skipped_ops += 1;
                            r.probe("skipped_index_insert_unreaped");
                            return res;
                        }
                        if kind == 1 {
                            (arg as usize).min(self.members.len())
                        } else {
                            self.members.len().saturating_sub(arg as usize)
                        }
                    }
                    3 | 4 => {
                        // reference must be a live (handle-holding) member
                        let cands: Vec<usize> = self
                            .members
                            .iter()
                            .copied()
                            .filter(|b| !self.bars[*b].handles.is_empty())
                            .collect();
                        if cands.is_empty() {
                            res.skipped = true;
                            self.skipped_ops += 1;
                            return res;
                        }
                        let refb = cands[arg as usize % cands.len()];
                        let p = self.members.iter().position(|b| *b == refb).unwrap();
                        if kind == 3 {
                            p
                        } else {
                            p + 1
                        }
                    }
                    _ => self.members.len(),
                };
                let id = match call(|| self.create_bar(op)) {
                    Ok(Ok(id)) => id,
                    Ok(Err(e)) => {
                        r.harness_error = Some(format!("template rejected: {e}"));
                        return res;
                    }
                    Err(p) => {
                        res.panic = Some(p);
                        return res;
                    }
                };
                let pb = self.bars[id].handles[0].clone();
                let mp = self.mp.clone().unwrap();
                let members = self.members.clone();
                let bars = &self.bars;
                let pr = call(|| match kind {
                    1 => {
                        mp.insert(arg as usize, pb);
                    }
                    2 => {
                        mp.insert_from_back(arg as usize, pb);
                    }
                    3 => {
                        let refb = members[pos];
                        mp.insert_before(&bars[refb].handles[0], pb);
                    }
                    4 => {
                        let refb = members[pos - 1];
                        mp.insert_after(&bars[refb].handles[0], pb);
                    }
                    _ => {
                        mp.add(pb);
                    }
                });
                if let Err(p) = pr {
                    res.panic = Some(p);
                }
                self.members.insert(pos, id);
                self.bars[id].in_mp = true;
                self.finish_op(op, None, calls0, flush0, &mut res, r);
                return res;
            }
            "mp_println" | "mp_clear" | "mp_suspend" | "mp_align" | "drop_mp" => {
                let mp = match &self.mp {
                    Some(mp) => mp.clone(),
                    None => {
                        res.skipped = true;
                        self.skipped_ops += 1;
                        return res;
                    }
                };
                let term = self.term.clone();
                let text = op.s0().to_string();
                if k == "mp_suspend" && !text.is_empty() && text_width(text.lines().next().unwrap_or("")) == 0 {
                    res.skipped = true;
                    self.skipped_ops += 1;
                    return res;
                }
                let mut io_err: Option<bool> = None;
                let pr = call(|| match k {
                    "mp_println" => {
                        io_err = Some(mp.println(&text).is_err());
                    }
                    "mp_clear" => {
                        io_err = Some(mp.clear().is_err());
                    }
                    "mp_suspend" => mp.suspend(|| {
                        for l in text.lines() {
                            term.external_line(l);
                        }
                    }),
                    "mp_align" => mp.set_alignment(if op.n0() % 2 == 1 {
                        MultiProgressAlignment::Bottom
                    } else {
                        MultiProgressAlignment::Top
                    }),
                    _ => {}
                });
                if let Err(p) = pr {
                    res.panic = Some(p);
                }
                self.last_io_err = io_err;
                match k {
                    "mp_println" => {
                        self.mark_vanishable();
                        self.push_log(&text, true);
                    }
                    "mp_clear" => {
                        self.mark_vanishable();
                        self.region_painted = false;
                        self.last_region_bottom = 0;
                    }
                    "mp_suspend" => {
                        self.mark_vanishable();
                        self.push_log(&text, false);
                        self.last_region_bottom = 0;
                    }
                    "mp_align" => {
                        self.bottom = op.n0() % 2 == 1;
                        self.bottom_ever |= self.bottom;
                    }
                    "drop_mp" => {
                        drop(mp);
                        // the bars keep the shared state alive; nothing observable happens
                        self.mp = self.mp.take();
                    }
                    _ => {}
                }
                self.finish_op(op, None, calls0, flush0, &mut res, r);
                return res;
            }
            _ => {}
        }
        // ---- operations on a bar
        let b = match self.bar_idx(op.n0()) {
            Some(b) => b,
            None => {
                res.skipped = true;
                self.skipped_ops += 1;
                return res;
            }
        };
        let pb = match self.handle(b) {
            Some(pb) => pb,
            None => {
                res.skipped = true;
                self.skipped_ops += 1;
                return res;
            }
        };
        if op.k == "suspend" && !op.s0().is_empty() && text_width(op.s0().lines().next().unwrap_or("")) == 0 {
            // an external write that starts with an empty line is absorbed by the pending line
            // wrap of the parked cursor (terminal semantics, not the library): not generated
            res.skipped = true;
            self.skipped_ops += 1;
            return res;
        }
        if op.k == "suspend" && (self.bars[b].abs.removed || (self.multi && !self.bars[b].in_mp)) {
            // writing to the terminal from a bar that is not attached to it, while the region of
            // the MultiProgress is displayed, is a usage error and not generated
            res.skipped = true;
            self.skipped_ops += 1;
            return res;
        }
        if op.k == "retarget_hidden" && self.rules.transcript {
            res.skipped = true;
            self.skipped_ops += 1;
            return res;
        }
        let a = op.n1();
        let text = op.s0().to_string();
        let term = self.term.clone();
        let writes0 = self.obs_writes(b);
        let was_finished = self.bars[b].abs.finished();
        let mut dropped_now = false;
        let mut new_style: Option<ProgressStyle> = None;
        let via_getter = k == "set_style" && a % 2 == 1;
        if k == "set_style" {
            let obs_text = op.s.get(1).cloned().unwrap_or_default();
            if via_getter {
                // pb.style().template(..): the custom key (and its text) of the current style is kept
                if let Err(e) = make_style(&text, &self.bars[b].obs, "") {
                    r.harness_error = Some(format!("template rejected: {e}"));
                    return res;
                }
                match pb.style().template(&text) {
                    Ok(s) => new_style = Some(s),
                    Err(e) => {
                        r.harness_error = Some(format!("template rejected: {e}"));
                        return res;
                    }
                }
            } else {
                match make_style(&text, &self.bars[b].obs, &obs_text) {
                    Ok(s) => new_style = Some(s),
                    Err(e) => {
                        r.harness_error = Some(format!("template rejected: {e}"));
                        return res;
                    }
                }
            }
        }
        let mut snapshot_style: Option<ProgressStyle> = None;
        if k == "snapshot_style" {
            let st = pb.style();
            let (t, o) = (self.bars[b].abs.template.clone(), self.bars[b].abs.obs_text.clone());
            self.bars[b].style_snapshot = Some((st, t, o));
        }
        if k == "set_style_snapshot" {
            match &self.bars[b].style_snapshot {
                Some((st, _, _)) => snapshot_style = Some(st.clone()),
                None => {
                    res.skipped = true;
                    self.skipped_ops += 1;
                    return res;
                }
            }
        }
        let mut drop_these: Vec<ProgressBar> = vec![];
        match k {
            "drop" => {
                // drop one handle (the last one of the slot)
                let hs = &mut self.bars[b].handles;
                if let Some(hd) = hs.pop() {
                    drop_these.push(hd);
                }
                if hs.is_empty() {
                    dropped_now = true;
                }
            }
            "drop_all" => {
                drop_these = std::mem::take(&mut self.bars[b].handles);
                dropped_now = true;
            }
            _ => {}
        }
        let mp = self.mp.clone();
        let pr = call(|| match k {
            "tick" => pb.tick(),
            "burn" => {
                // many ordinary redraw requests at one instant: exhausts a refresh limiter
                for _ in 0..a.min(60) {
                    pb.tick();
                }
            }
            "burn_forced" => {
                // a long run of forced redraws (C18: a program that carries on for long after
                // its terminal went away)
                for _ in 0..a.min(400) {
                    pb.force_draw();
                }
            }
            "inc" => pb.inc(a),
            "dec" => pb.dec(a),
            "set_position" => pb.set_position(a),
            "set_message" => pb.set_message(text.clone()),
            "set_prefix" => pb.set_prefix(text.clone()),
            "set_length" => pb.set_length(a),
            "unset_length" => pb.unset_length(),
            "inc_length" => pb.inc_length(a),
            "set_style" if a / 2 % 2 == 1 => {
                // through the builder of the iterator adaptor (`it.progress_with(pb).with_style(..)`)
                use indicatif::ProgressIterator;
                let it = std::iter::empty::<u8>().progress_with(pb.clone()).with_style(new_style.take().unwrap());
                drop(it);
            }
            "set_style" => pb.set_style(new_style.take().unwrap()),
            "set_tab_width" => pb.set_tab_width(a as usize),
            "reset" => pb.reset(),
            "finish" => apply_finish(&pb, a, &text),
            "finish_using_style" => pb.finish_using_style(),
            "force_draw" => pb.force_draw(),
            "enable_steady_tick" => pb.enable_steady_tick(std::time::Duration::from_nanos(a.max(1))),
            "disable_steady_tick" => pb.disable_steady_tick(),
            "println" => pb.println(&text),
            "suspend" => pb.suspend(|| {
                for l in text.lines() {
                    term.external_line(l);
                }
            }),
            "clone" => {}
            "drop" | "drop_all" => {
                drop(pb.clone());
                for hd in drop_these.drain(..) {
                    drop(hd);
                }
            }
            "mp_remove" => {
                if let Some(mp) = &mp {
                    mp.remove(&pb);
                }
            }
            "retarget_hidden" => pb.set_draw_target(ProgressDrawTarget::hidden()),
            "set_style_snapshot" => {
                if let Some(st) = snapshot_style.take() {
                    pb.set_style(st);
                }
            }
            "iter_exhaust" => {
                let n = a as usize;
                if op.n2() % 7 >= 5 {
                    // an iterator that cannot bound what is left (default size_hint, or an upper
                    // bound that stays above zero): exhaustion is exhaustion all the same
                    let mut k = 0usize;
                    let src = std::iter::from_fn(move || {
                        k += 1;
                        if k <= n {
                            Some(k)
                        } else {
                            None
                        }
                    });
                    if op.n2() % 7 == 5 {
                        for _ in pb.wrap_iter(src) {}
                    } else {
                        for _ in pb.wrap_iter(src.take(n + 3)) {}
                    }
                    return;
                }
                let it = pb.wrap_iter(0..n);
                // external or internal iteration: both have to end with the finish behaviour
                match op.n2() % 5 {
                    1 => it.for_each(|_| {}),
                    2 => {
                        let _ = it.count();
                    }
                    3 => {
                        let _ = it.last();
                    }
                    4 => {
                        let _ = it.fold(0usize, |a, x| a.wrapping_add(x));
                    }
                    _ => {
                        for _ in it {}
                    }
                }
            }
            "iter_partial" => {
                let n = a as usize;
                let mut it = pb.wrap_iter(0..n);
                for _ in 0..(op.n2() as usize).min(n) {
                    let _ = it.next();
                }
                drop(it);
            }
            _ => {}
        });
        // (this clone may be the last handle: its drop paints the final frame)
        let pr = match (pr, call(move || drop(pb))) {
            (Err(p), _) | (Ok(()), Err(p)) => Err(p),
            _ => Ok(()),
        };
        if let Err(p) = pr {
            res.panic = Some(p);
        }
        if k == "clone" {
            let c = self.bars[b].handles[0].clone();
            self.bars[b].handles.push(c);
        }
        // ---- model transition
        let hidden_now = self.bars[b].abs.removed || (self.multi && !self.bars[b].in_mp);
        let snap_model: Option<(String, String)> = self.bars[b].style_snapshot.as_ref().map(|(_, t, o)| (t.clone(), o.clone()));
        {
            let abs = &mut self.bars[b].abs;
            match k {
                "inc" => abs.pos = abs.pos.wrapping_add(a),
                "dec" => abs.pos = abs.pos.wrapping_sub(a),
                "set_position" => abs.pos = a,
                "set_message" => abs.msg = text.clone(),
                "set_prefix" => abs.prefix = text.clone(),
                "set_length" => abs.len = Some(a),
                "unset_length" => abs.len = None,
                "inc_length" => abs.len = abs.len.map(|l| l.saturating_add(a)),
                "set_style" => {
                    abs.template = text.clone();
                    if !via_getter {
                        abs.obs_text = op.s.get(1).cloned().unwrap_or_default();
                    }
                }
                "set_tab_width" => abs.tab_width = a as usize,
                "set_style_snapshot" => {
                    if let Some((t, o)) = snap_model.clone() {
                        abs.template = t;
                        abs.obs_text = o;
                    }
                }
                "reset" => {
                    abs.pos = 0;
                    abs.status = Status::InProgress;
                }
                "finish" => {
                    abs.apply_finish(a, &text);
                    abs.vanishable = false;
                }
                "finish_using_style" => {
                    let (c, m) = (abs.on_finish, abs.on_finish_msg.clone());
                    abs.apply_finish(c, &m);
                    abs.vanishable = false;
                }
                "reset" if false => {}
                "iter_exhaust" => {
                    abs.pos = abs.pos.wrapping_add(a);
                    if !abs.finished() {
                        let (c, m) = (abs.on_finish, abs.on_finish_msg.clone());
                        abs.apply_finish(c, &m);
                    }
                }
                "iter_partial" => {
                    abs.pos = abs.pos.wrapping_add(op.n2().min(a));
                }
                _ => {}
            }
            if dropped_now {
                abs.dropped = true;
                if self.multi && !self.region_painted {
                    // its rendering was erased by a clear and not repainted since
                    abs.vanishable = true;
                }
                if !abs.finished() {
                    let (c, m) = (abs.on_finish, abs.on_finish_msg.clone());
                    abs.apply_finish(c, &m);
                }
            }
        }
        if !hidden_now {
            match k {
                "println" => {
                    if self.multi {
                        self.mark_vanishable();
                    }
                    self.push_log(&text, true);
                }
                "suspend" => {
                    if self.multi {
                        self.mark_vanishable();
                        self.last_region_bottom = 0;
                    }
                    self.push_log(&text, false);
                }
                _ => {}
            }
        } else if k == "suspend" {
            // the closure runs even for a hidden bar and writes to the terminal itself
            self.push_log(&text, false);
        }
        if k == "retarget_hidden" {
            // only used without the transcript oracle (C18): the bar leaves its target
            self.bars[b].abs.removed = true;
            self.members.retain(|x| *x != b);
        }
        if k == "mp_remove" && self.multi && self.bars[b].in_mp && !self.bars[b].abs.removed {
            self.bars[b].abs.removed = true;
            self.members.retain(|x| *x != b);
            self.removed_since_paint = true;
            self.mark_vanishable();
            if self.members.first().map_or(false, |m| self.bars[*m].abs.dropped) {
                self.unreaped_possible = true;
            }
        }
        // submission: the bar rendered during this call, or it is hidden-finished and drew
        let rendered = self.obs_writes(b) > writes0;
        if !hidden_now {
            let finishing = matches!(k, "finish" | "finish_using_style") || (dropped_now && !was_finished) || (k == "iter_exhaust" && !was_finished);
            if rendered {
                // render the state the bar had when it rendered last (position and length as
                // seen by the observation key; within one call nothing else changes in between)
                let (opos, olen, _) = *self.bars[b].obs.lock().unwrap().writes.last().unwrap();
                let mut at_render = self.bars[b].abs.clone();
                if matches!(k, "iter_exhaust" | "iter_partial") {
                    at_render.pos = opos;
                    at_render.len = olen;
                } else if (opos != at_render.pos || olen != at_render.len) && self.rules.transcript {
                    // (without the transcript oracle - C18 - a steady ticker may render in the
                    // middle of a call: what it saw is not the state after the call)
                    r.violate(
                        &format!("{}.render_state", self.rules.prop),
                        format!(
                            "op#{} {}: the bar rendered position {opos} length {olen:?} but its state is position {} length {:?}",
                            self.op_idx,
                            op.short(),
                            at_render.pos,
                            at_render.len
                        ),
                    );
                }
                let lines = at_render.render();
                self.bars[b].abs.submitted = Some(lines);
                // the last render of this call that was followed by a painted frame
                let flushes_now = self.term.flushes();
                let painted_idx = {
                    let sh = self.bars[b].obs.lock().unwrap();
                    (writes0..sh.writes.len()).rev().find(|i| sh.write_flushes[*i] < flushes_now)
                };
                let last_idx = self.obs_writes(b) - 1;
                if let Some(pi) = painted_idx {
                    if pi != last_idx && self.multi {
                        let (ppos, plen, _) = self.bars[b].obs.lock().unwrap().writes[pi];
                        let mut shown = self.bars[b].abs.clone();
                        shown.pos = ppos;
                        shown.len = plen;
                        self.shown_override = Some((b, shown.render()));
                        r.probe("last_render_of_call_not_painted");
                    }
                }
            } else if finishing && self.bars[b].abs.status == Status::DoneHidden {
                // a hidden-finished bar submits an empty frame (nothing is rendered)
                self.bars[b].abs.submitted = Some(vec![]);
            }
        }
        let forced = !hidden_now
            && (matches!(k, "finish" | "finish_using_style" | "force_draw" | "println" | "suspend" | "set_tab_width")
                || (k == "iter_exhaust" && !was_finished)
                || (dropped_now && !was_finished));
        self.finish_op(op, Some((b, forced, dropped_now && was_finished)), calls0, flush0, &mut res, r);
        res
    }

    /// Common tail of every operation: observe, retire, check.
    fn finish_op(
        &mut self,
        op: &Op,
        bar: Option<(usize, bool, bool)>,
        calls0: u64,
        flush0: u64,
        res: &mut OpResult,
        r: &mut Report,
    ) {
        let prop = self.rules.prop;
        let unreaped_before = self.unreaped_possible;
        res.calls = self.term.n_calls() - calls0;
        res.flushed = self.term.flushes() > flush0;
        let at = format!("op#{} {}", self.op_idx, op.short());
        if let Some(e) = self.term.lock().xcheck_error.clone() {
            r.harness_error = Some(e);
            return;
        }
        if res.panic.is_some() {
            return;
        }
        if self.term.is_pty() && !res.flushed {
            // pty mode sees frames as bytes arriving on the master side; a frame without a single
            // visible byte (only empty lines fit, or nothing at all) is invisible there. A bar
            // rendered during this call: on a target without refresh limiter the frame was
            // painted (the region is on the screen, dropped bars were reaped); with a limiter
            // it is impossible to tell
            let renders: usize = self.bars.iter().map(|s| s.obs.lock().unwrap().writes.len()).sum();
            if renders > self.renders0 {
                if self.hz == 0 {
                    if op.k != "mp_clear" {
                        self.region_painted = true;
                        self.unreaped_possible = false;
                    }
                    self.removed_since_paint = false;
                    self.retire_leading(!matches!(op.k.as_str(), "drop" | "drop_all"));
                    r.probe("pty_invisible_frame");
                } else {
                    self.out_of_scope = Some(format!("{at}: pty mode cannot tell whether a frame without visible bytes was painted"));
                    return;
                }
            }
        }
        let forced_mp = matches!(op.k.as_str(), "mp_println" | "mp_suspend" | "mp_clear");
        let forced = forced_mp || bar.map_or(false, |(_, f, _)| f);
        // (pty mode sees frames as bytes on the master side: an empty forced frame is invisible)
        if self.rules.forced_paint && forced && !res.flushed && !self.term.is_pty() {
            r.violate(
                &format!("{prop}.forced_paint"),
                format!("{at}: a forced call painted no frame (no flush reached the terminal)"),
            );
            return;
        }
        if let Some((_, _, true)) = bar {
            // dropping an already finished bar must not touch the terminal
            if self.rules.forced_paint && res.calls > 0 {
                r.violate(
                    &format!("{prop}.drop_finished_silent"),
                    format!("{at}: dropping an already finished bar made {} terminal calls", res.calls),
                );
                return;
            }
        }
        if res.flushed {
            if op.k != "mp_clear" {
                self.region_painted = true;
            }
            if op.k != "mp_clear" {
                // (an explicit clear paints, but does not reap dropped bars)
                self.unreaped_possible = false;
            }
            self.removed_since_paint = false;
            r.probe("painted_ops");
        } else {
            r.probe("unpainted_ops");
        }
        // scope: does everything the members submitted fit the terminal height?
        {
            let w = self.w;
            let rows: usize = self
                .region_spec()
                .iter()
                .map(|(_, l, _)| l.iter().map(|x| rows_of(x, w)).sum::<usize>())
                .sum();
            if rows > self.h {
                if !self.rules.height_cut {
                    self.out_of_scope = Some(format!("{at}: region needs {rows} rows, terminal has {}", self.h));
                    return;
                }
                r.probe("region_exceeds_height");
            }
        }
        // the frame painted by this call still shows dropped leading bars as members: check first,
        // retire afterwards
        if self.rules.transcript {
            let actual = self.term.transcript();
            if !res.flushed {
                if actual != self.last_transcript {
                    r.violate(
                        &format!("{prop}.no_paint_no_change"),
                        format!(
                            "{at}: no frame was painted (no flush) but the terminal changed:\n{}",
                            diff_rows(&self.last_transcript, &actual)
                        ),
                    );
                }
            } else {
                self.check_transcript(&actual, &at, r);
                let frames = self.term.flushes() - flush0;
                let lead_dropped = self.members.first().map_or(false, |b| self.bars[*b].abs.dropped);
                if r.violation.is_some() && frames >= 2 && lead_dropped && self.out_of_scope.is_none() {
                    // a call that paints several frames: an earlier frame of it may already have
                    // reaped the leading dropped bars, so that the last one shows the state after
                    // their retirement
                    let first = r.violation.take();
                    // what that earlier frame painted of each member: the prefix of the lines that
                    // fit the terminal height (the information kept from the previous call is stale)
                    {
                        let w = self.w;
                        let region = self.region_spec();
                        let rows: usize = region.iter().map(|(_, l, _)| l.iter().map(|x| rows_of(x, w)).sum::<usize>()).sum();
                        self.last_frame_cut = rows > self.h;
                        let mut painted: std::collections::BTreeMap<usize, Vec<String>> = Default::default();
                        let mut used = 0;
                        'outer: for (b, lines, _) in &region {
                            let mut kept = vec![];
                            for l in lines {
                                let hgt = rows_of(l, w);
                                if used + hgt > self.h {
                                    if !kept.is_empty() {
                                        painted.insert(*b, kept);
                                    }
                                    break 'outer;
                                }
                                used += hgt;
                                kept.push(l.clone());
                            }
                            painted.insert(*b, kept);
                        }
                        self.last_painted = painted;
                    }
                    self.retire_leading(true);
                    if self.out_of_scope.is_none() {
                        self.check_transcript(&actual, &at, r);
                        if r.violation.is_some() {
                            r.violation = first;
                        } else {
                            r.probe("matched_after_retiring_within_call");
                        }
                    }
                }
                self.last_transcript = actual;
            }
            if r.violation.is_some() || self.out_of_scope.is_some() {
                return;
            }
        }
        if res.flushed || matches!(op.k.as_str(), "drop" | "drop_all") {
            // A painted frame reaps the leading dropped bars; a dropped head bar is reaped at
            // once (after the frame its drop may have painted). Bars dropped earlier that become
            // leading only through that may still be counted by an index-based insert until the
            // next painted frame.
            let retired = self.retire_leading(res.flushed && !matches!(op.k.as_str(), "drop" | "drop_all"));
            if res.flushed && matches!(op.k.as_str(), "println" | "mp_println") && (!retired.is_empty() || unreaped_before) {
                // bars reaped below lines printed by the same draw are not kept: their rows stay
                // until the next draw, and until then a dropped head bar is not reaped at once
                // (same bookkeeping as after remove())
                self.removed_since_paint = true;
            }
            if matches!(op.k.as_str(), "drop" | "drop_all") {
                let this = bar.map(|(b, _, _)| b);
                if retired.iter().any(|b| Some(*b) != this) || (self.removed_since_paint && !retired.is_empty()) {
                    self.unreaped_possible = true;
                    let w = self.w;
                    self.unreaped_rows = retired
                        .iter()
                        .map(|b| self.bars[*b].abs.render().iter().map(|l| rows_of(l, w)).sum::<usize>())
                        .sum();
                }
            }
        }
    }

    /// Lines the region should show, per member: (bar, lines, optional)
    fn region_spec(&self) -> Vec<(usize, Vec<String>, bool)> {
        let mut v = vec![];
        if self.multi {
            if !self.region_painted {
                return v;
            }
            for &b in &self.members {
                let abs = &self.bars[b].abs;
                let lines = match &self.shown_override {
                    Some((ob, l)) if *ob == b => Some(l),
                    _ => abs.submitted.as_ref(),
                };
                if let Some(l) = lines {
                    if !l.is_empty() {
                        v.push((b, l.clone(), abs.dropped && abs.vanishable));
                    }
                }
            }
        } else if let Some(s) = self.bars.first() {
            if let Some(l) = &s.abs.submitted {
                if !l.is_empty() {
                    v.push((0, l.clone(), false));
                }
            }
        }
        v
    }

    pub fn check_transcript(&mut self, actual: &[String], at: &str, r: &mut Report) {
        let prop = self.rules.prop;
        let w = self.w;
        // double-width characters only in lines that do not wrap (a cell pair straddling the
        // right margin makes any ceil(columns/W) accounting wrong; out of scope, DESIGN §5 C01)
        let wide_wrap = |l: &String| has_wide(l) && text_width(l) > w;
        if self.items.iter().any(|i| matches!(i, Item::Log(l) if wide_wrap(l)))
            || self.bars.iter().any(|b| b.abs.submitted.as_ref().map_or(false, |ls| ls.iter().any(wide_wrap)))
        {
            self.wide_wrap = true;
        }
        let logs: Vec<Vec<String>> = self
            .items
            .iter()
            .filter_map(|i| match i {
                Item::Log(l) => Some(wrap_rows(l, w)),
                _ => None,
            })
            .collect();
        let statics: Vec<(usize, Vec<String>, bool, usize)> = self
            .items
            .iter()
            .filter_map(|i| match i {
                Item::Static(b) => {
                    let abs = &self.bars[*b].abs;
                    Some((*b, lines_rows(abs.submitted.as_deref().unwrap_or(&[]), w), abs.vanishable, abs.min_log))
                }
                _ => None,
            })
            .collect();
        let mut region = self.region_spec();
        // height: does the region fit?
        let region_rows: usize = region.iter().map(|(_, l, _)| l.iter().map(|x| rows_of(x, w)).sum::<usize>()).sum();
        if self.unreaped_rows > 0 && region_rows + self.unreaped_rows > self.h {
            // dropped bars the implementation has not reaped yet still take part in this frame's
            // height budget (once); the model has retired them already
            self.unreaped_rows = 0;
            self.out_of_scope = Some(format!("{at}: unreaped dropped bars in a height-limited frame"));
            r.inconclusive = true;
            return;
        }
        self.unreaped_rows = 0;
        let mut region_alts: Vec<Vec<(usize, Vec<String>, bool)>> = vec![];
        if region_rows > self.h {
            if !self.rules.height_cut {
                self.out_of_scope = Some(format!("{at}: region needs {region_rows} rows, terminal has {}", self.h));
                return;
            }
            // (a) longest prefix of lines that fits, (b) longest prefix of whole bars that fits
            let mut a: Vec<(usize, Vec<String>, bool)> = vec![];
            let mut used = 0;
            'outer: for (b, lines, opt) in &region {
                let mut kept = vec![];
                for l in lines {
                    let hgt = rows_of(l, w);
                    if used + hgt > self.h {
                        if !kept.is_empty() {
                            a.push((*b, kept, *opt));
                        }
                        break 'outer;
                    }
                    used += hgt;
                    kept.push(l.clone());
                }
                a.push((*b, kept, *opt));
            }
            let mut bb: Vec<(usize, Vec<String>, bool)> = vec![];
            let mut used = 0;
            for (b, lines, opt) in &region {
                let hgt: usize = lines.iter().map(|x| rows_of(x, w)).sum();
                if used + hgt > self.h {
                    break;
                }
                used += hgt;
                bb.push((*b, lines.clone(), *opt));
            }
            region_alts.push(a);
            region_alts.push(bb);
            r.probe("height_truncated_frames");
        } else {
            region_alts.push(std::mem::take(&mut region));
        }
        let static_rows: usize = statics.iter().map(|(_, rows, _, _)| rows.len()).sum();
        {
            // rows that have scrolled into the scrollback cannot be erased any more: if more rows
            // scrolled out than there are log rows, static lines may have (also by a taller frame
            // painted in the middle of this call)
            let log_rows: usize = logs.iter().map(|l| l.len()).sum();
            let top = self.term.lock().grid.top;
            if static_rows > 0 && top > log_rows {
                self.out_of_scope = Some(format!("{at}: static lines may have scrolled out of the terminal's reach"));
                r.inconclusive = true;
                return;
            }
        }
        // (what counts is what the frame paints: a bar too tall for the terminal is left out)
        let painted_rows_max: usize = region_alts
            .iter()
            .map(|alt| alt.iter().map(|(_, l, _)| l.iter().map(|x| rows_of(x, w)).sum::<usize>()).sum::<usize>())
            .max()
            .unwrap_or(0);
        if static_rows > 0 && static_rows + painted_rows_max.min(self.h) > self.h {
            // static lines of finished bars may have scrolled out of the terminal's reach
            self.out_of_scope = Some(format!("{at}: static lines + region exceed the terminal height"));
            r.inconclusive = true;
            return;
        }
        let mut best: Option<MatchOut> = None;
        let mut best_alt = 0usize;
        for (ai, alt) in region_alts.iter().enumerate() {
            let region_rows: Vec<(usize, Vec<String>, bool)> = alt.iter().map(|(b, l, o)| (*b, lines_rows(l, w), *o)).collect();
            let m = match_transcript(actual, &logs, &statics, &region_rows, self.bottom_ever && self.multi);
            if m.exhausted {
                self.out_of_scope = Some(format!("{at}: matcher budget exhausted"));
                r.inconclusive = true;
                return;
            }
            if m.ok {
                best = Some(m);
                best_alt = ai;
                break;
            }
        }
        let m = match best {
            Some(m) => m,
            None => {
                // classify: are the log lines intact?
                let rule = if !logs_intact(actual, &logs) { "log_lines" } else { "transcript" };
                let mut exp: Vec<String> = vec![];
                for i in &self.items {
                    match i {
                        Item::Log(l) => exp.extend(wrap_rows(l, w).into_iter().map(|x| format!("log   |{x}"))),
                        Item::Static(b) => {
                            let abs = &self.bars[*b].abs;
                            exp.extend(
                                lines_rows(abs.submitted.as_deref().unwrap_or(&[]), w)
                                    .into_iter()
                                    .map(|x| format!("static{}|{x}", if abs.vanishable { "?" } else { " " })),
                            )
                        }
                    }
                }
                for (b, l, o) in &region_alts[0] {
                    exp.extend(lines_rows(l, w).into_iter().map(|x| format!("bar{b}{} |{x}", if *o { "?" } else { " " })));
                }
                r.violate(
                    &format!("{prop}.{rule}"),
                    format!(
                        "{at}: terminal ({}x{}) does not show [printed lines] + [current frame]:\nexpected (? = may be absent):\n{}\nactual:\n{}",
                        self.w,
                        self.h,
                        exp.join("\n"),
                        actual.iter().map(|x| format!("      |{x}")).collect::<Vec<_>>().join("\n")
                    ),
                );
                return;
            }
        };
        self.last_frame_cut = region_rows > self.h;
        self.last_painted = region_alts[best_alt].iter().map(|(b, l, _)| (*b, l.clone())).collect();
        // optional items that are absent in every match are gone for good
        // (while the region is cleared nothing is decided: the implementation repaints dropped
        // bars it has not reaped yet with the next frame)
        let gone: Vec<usize> = statics
            .iter()
            .filter(|(b, _, v, _)| *v && !m.present.contains(b) && self.region_painted)
            .map(|(b, ..)| *b)
            .collect();
        for b in gone {
            self.items.retain(|i| *i != Item::Static(b));
            r.probe("static_vanished");
        }
        let gone_members: Vec<usize> = region_alts
            .iter()
            .flatten()
            .filter(|(b, _, o)| *o && !m.present.contains(b))
            .map(|(b, ..)| *b)
            .collect();
        for b in gone_members {
            // a vanished dropped member never comes back
            self.members.retain(|x| *x != b);
            r.probe("dropped_member_vanished");
        }
        if !statics.is_empty() {
            r.probe("frames_with_static_bars");
        }
        // cursor
        if self.rules.cursor && region_rows <= self.h {
            let (cr, cc) = self.term.lock().grid.next_char_pos();
            if !m.ends.iter().any(|e| *e == cr) || cc != 0 {
                r.violate(
                    &format!("{prop}.cursor"),
                    format!(
                        "{at}: after the draw the next character would land at row {cr} column {cc}; expected column 0 of row {:?} (first row below the frame)",
                        m.ends
                    ),
                );
                return;
            }
        }
        // bottom alignment: the region's bottom edge never moves up
        let region_nonblank = region_alts
            .iter()
            .flatten()
            .last()
            .map_or(false, |(_, l, _)| l.last().map_or(false, |x| wrap_rows(x, w).last().map_or(false, |row| !row.is_empty())));
        // (a call that draws several frames may have had taller, height-truncated frames in
        // between: the bottom edge is only compared across single-frame calls)
        let multi_draw = at.contains(" iter_exhaust(") || at.contains(" iter_partial(") || at.contains(" burn(");
        if !(self.bottom && self.multi && region_nonblank && region_rows <= self.h) || multi_draw {
            self.last_region_bottom = 0;
        } else {
            let bottom_edge = actual.len();
            if bottom_edge < self.last_region_bottom && self.region_painted {
                r.violate(
                    &format!("{prop}.bottom_edge"),
                    format!("{at}: bottom alignment: the bottom edge of the region moved up from row {} to row {bottom_edge}", self.last_region_bottom),
                );
            }
            self.last_region_bottom = bottom_edge;
        }
    }

    /// Drop everything (inside the simulated thread).
    pub fn teardown(&mut self) {
        if std::env::var_os("VERIF_TRACE").is_some() {
            for c in &self.term.lock().calls {
                eprintln!("  call#{} op#{} t{} {:?}{}", c.idx, c.op, c.tid, c.kind, if c.failed { " FAILED" } else { "" });
            }
        }
        for s in self.bars.iter_mut() {
            s.handles.clear();
        }
        self.mp = None;
        PTY_TERM.with(|c| *c.borrow_mut() = None);
    }
}

pub fn has_wide(s: &str) -> bool {
    s.chars().any(|c| unicode_width::UnicodeWidthChar::width(c).unwrap_or(0) > 1)
}

/// every ESC starts a complete CSI sequence ESC [ params final
pub fn escapes_well_formed(s: &str) -> bool {
    let c: Vec<char> = s.chars().collect();
    let mut i = 0;
    while i < c.len() {
        if c[i] == '\x1b' {
            if c.get(i + 1) != Some(&'[') {
                return false;
            }
            let mut j = i + 2;
            while j < c.len() && (c[j].is_ascii_digit() || c[j] == ';') {
                j += 1;
            }
            if c.get(j) != Some(&'m') {
                return false;
            }
            i = j + 1;
        } else {
            i += 1;
        }
    }
    true
}

pub fn diff_rows(a: &[String], b: &[String]) -> String {
    let mut s = String::new();
    s.push_str("before:\n");
    for x in a {
        s.push_str(&format!("      |{x}\n"));
    }
    s.push_str("after:\n");
    for x in b {
        s.push_str(&format!("      |{x}\n"));
    }
    s
}

/// Do all log lines appear, in order, each exactly once (as whole wrapped rows)?
pub fn logs_intact(actual: &[String], logs: &[Vec<String>]) -> bool {
    let mut r = 0;
    for l in logs {
        // find l starting at or after r
        let mut found = None;
        let mut i = r;
        while i + l.len() <= actual.len().max(i + l.len()) && i <= actual.len() {
            let ok = l.iter().enumerate().all(|(k, row)| actual.get(i + k).map(|s| s.as_str()).unwrap_or("") == row);
            if ok {
                found = Some(i);
                break;
            }
            if i >= actual.len() {
                break;
            }
            i += 1;
        }
        match found {
            Some(i) => r = i + l.len(),
            None => return false,
        }
    }
    true
}

pub struct MatchOut {
    pub ok: bool,
    /// search budget exhausted: undecided
    pub exhausted: bool,
    /// ids of optional items present in at least one successful match
    pub present: HashSet<usize>,
    /// row index just below the expected contents, for every successful match
    pub ends: Vec<usize>,
}

/// Match the transcript against: interleave(logs in order, statics in order [optional if
/// vanishable, never above log lines older than themselves]) ++ region members in order
/// (optional ones may be absent) ++ nothing else. Bottom alignment: blank rows may precede
/// the region / sit between items.
pub fn match_transcript(
    actual: &[String],
    logs: &[Vec<String>],
    statics: &[(usize, Vec<String>, bool, usize)],
    region: &[(usize, Vec<String>, bool)],
    blanks_ok: bool,
) -> MatchOut {
    struct Ctx<'a> {
        actual: &'a [String],
        logs: &'a [Vec<String>],
        statics: &'a [(usize, Vec<String>, bool, usize)],
        region: &'a [(usize, Vec<String>, bool)],
        blanks_ok: bool,
        present: HashSet<usize>,
        ends: Vec<usize>,
        failed: HashSet<(usize, usize, usize, usize)>,
        budget: u64,
    }
    fn rows_match(c: &Ctx, r: usize, rows: &[String]) -> bool {
        rows.iter()
            .enumerate()
            .all(|(k, row)| c.actual.get(r + k).map(|s| s.as_str()).unwrap_or("") == row)
    }
    // returns true if some match exists from this state; `used` = optional ids used so far.
    // `si` is a bit mask of the static items already placed (they may come in any order: a
    // dropped bar that was cleared can be repainted later than one that was retired after it).
    fn go(c: &mut Ctx, r: usize, li: usize, si: usize, mi: usize, used: &mut Vec<usize>) -> bool {
        if c.budget == 0 {
            return false;
        }
        c.budget -= 1;
        if c.failed.contains(&(r, li, si, mi)) {
            return false;
        }
        let mut any = false;
        let mandatory_done = c
            .statics
            .iter()
            .enumerate()
            .all(|(k, s)| s.2 || (si >> k) & 1 == 1);
        if mi == 0 {
            // phase 1: log lines (in order) interleaved with static items
            if li < c.logs.len() {
                let rows = &c.logs[li];
                if rows_match(c, r, rows) && go(c, r + rows.len(), li + 1, si, mi, used) {
                    any = true;
                }
            }
            for k in 0..c.statics.len() {
                if (si >> k) & 1 == 1 {
                    continue;
                }
                let (id, rows, min_log) = (c.statics[k].0, &c.statics[k].1, c.statics[k].3);
                if li >= min_log.min(c.logs.len()) && rows_match(c, r, rows) {
                    used.push(id);
                    if go(c, r + rows.len(), li, si | (1 << k), mi, used) {
                        any = true;
                    }
                    used.pop();
                }
            }
        }
        if li == c.logs.len() && mandatory_done {
            if mi < c.region.len() {
                let (id, rows, optional) = (c.region[mi].0, &c.region[mi].1, c.region[mi].2);
                if rows_match(c, r, rows) {
                    if optional {
                        used.push(id);
                    }
                    if go(c, r + rows.len(), li, si, mi + 1, used) {
                        any = true;
                    }
                    if optional {
                        used.pop();
                    }
                }
                if optional && go(c, r, li, si, mi + 1, used) {
                    any = true;
                }
            } else {
                // everything expected has been placed: the rest of the transcript must be blank
                if r >= c.actual.len() || c.actual[r..].iter().all(|s| s.is_empty()) {
                    for u in used.iter() {
                        c.present.insert(*u);
                    }
                    if !c.ends.contains(&r) {
                        c.ends.push(r);
                    }
                    return true;
                }
            }
        }
        // (blank padding rows sit above the region; leading dropped members may have been reaped
        // in an earlier draw of the same call and then count as static rows above the padding)
        let lead = c.region.iter().take_while(|m| m.2).count();
        if c.blanks_ok && mi <= lead && r < c.actual.len() && c.actual[r].is_empty() && go(c, r + 1, li, si, mi, used) {
            any = true;
        }
        if !any {
            c.failed.insert((r, li, si, mi));
        }
        any
    }
    let mut c = Ctx {
        actual,
        logs,
        statics,
        region,
        blanks_ok,
        present: HashSet::new(),
        ends: vec![],
        failed: HashSet::new(),
        budget: 200_000,
    };
    let mut used = vec![];
    let ok = go(&mut c, 0, 0, 0, 0, &mut used);
    MatchOut {
        ok,
        exhausted: c.budget == 0,
        present: c.present,
        ends: c.ends,
    }
}
