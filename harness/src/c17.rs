//! C17 — iterator and I/O adaptors are transparent and count exactly.
//!
//! Call-by-call differential against an unwrapped twin with the same seeded behaviour plan
//! (short transfers, EINTR/EAGAIN/EIO, Pending, EOF, vectored I/O, fill_buf/consume, seeks),
//! plus a position model. Rayon: the real `rayon.rs` wrappers are driven through the real
//! plumbing traits by a seeded split driver whose leaves run on simulated threads.

use std::io::{BufRead, IoSlice, IoSliceMut, Read, Seek, SeekFrom, Write};
use std::pin::Pin;
use std::sync::{Arc, Mutex as StdMutex};
use std::task::{Context, Poll};

use futures_core::Stream;
use indicatif::{ParallelProgressIterator, ProgressBar, ProgressBarIter, ProgressDrawTarget, ProgressIterator};
use rayon::iter::plumbing::{Consumer, Folder, Producer, ProducerCallback, Reducer, UnindexedConsumer};
use rayon::iter::{IndexedParallelIterator, ParallelIterator};
use tokio::io::{AsyncBufRead, AsyncRead, AsyncSeek, AsyncWrite, ReadBuf};
use verif_simrt::rng::Rng;
use verif_simrt::{Config, World};

use crate::c07::{finish_report, gen_sched_cfg, sched_config};
use crate::common::*;
use crate::engine::{Budget, Check, Tier};
use crate::scenario::{Op, Report, Scenario};
use crate::simio::{counting_waker, SimIo, SimItems};
use crate::simterm::SimTerm;

pub struct C17;

fn mk_pb(sc: &Scenario) -> (ProgressBar, Option<SimTerm>) {
    let len = if sc.c("len_known") == 1 { Some(sc.c("len0")) } else { None };
    let (target, term) = if sc.c("visible") == 1 {
        let t = SimTerm::new(30, 10);
        (ProgressDrawTarget::term_like(Box::new(t.clone())), Some(t))
    } else {
        (ProgressDrawTarget::hidden(), None)
    };
    let pb = ProgressBar::with_draw_target(len, target).with_finish(finish_kind(sc.c("on_finish"), "fin"));
    (pb, term)
}

fn kind_of<T>(r: &std::io::Result<T>) -> Option<std::io::ErrorKind> {
    r.as_ref().err().map(|e| e.kind())
}

/// Compare position with the model; `slack` allows the position to lie in [model, model+slack]
fn check_pos(r: &mut Report, pb: &ProgressBar, model: u64, slack: u64, at: &str) -> u64 {
    let p = pb.position();
    let ok = if slack == 0 {
        p == model
    } else {
        p.wrapping_sub(model) <= slack
    };
    if !ok {
        r.violate(
            "C17.position",
            format!("after {at}: position() = {p}, bytes/items actually transferred so far = {model}{}", if slack > 0 { format!(" (+ at most {slack} hidden by the error)") } else { String::new() }),
        );
    }
    p
}

/// An iterator that is not fused: every third call returns None, then items come again.
struct Unfused(u32);
impl Iterator for Unfused {
    type Item = u32;
    fn next(&mut self) -> Option<u32> {
        self.0 += 1;
        if self.0 % 3 == 0 {
            None
        } else {
            Some(self.0)
        }
    }
}

fn exec_io(sc: &Scenario) -> Report {
    let sc2 = sc.clone();
    let (res, out) = World::run(Config::sequential(sc.seed), move || {
        let sc = sc2;
        let mut r = Report::default();
        let (pb, _term) = mk_pb(&sc);
        let mk = || {
            let mut io = SimIo::new(sc.seed ^ 0xABCD, sc.c("data_len") as usize, sc.c("p_err"), sc.c("p_short"), 0);
            io.vectored = sc.c("scalar_sink") != 1;
            io
        };
        let inner = mk();
        let mirror = inner.mirror.clone();
        let mut w: ProgressBarIter<SimIo> = if sc.c("ctor") == 1 { pb.wrap_write(inner) } else { pb.wrap_read(inner) };
        let mut t = mk();
        let mut model: u64 = 0;
        let mut last_fill: usize = 0;
        let ops = sc.threads.first().cloned().unwrap_or_default();
        for (i, op) in ops.iter().enumerate() {
            let at = format!("op#{i} {}", op.short());
            let mut slack = 0u64;
            let step = call(|| -> Result<(), String> {
                match op.k.as_str() {
                    "read" => {
                        let cap = op.n0() as usize;
                        let (mut b1, mut b2) = (vec![0u8; cap], vec![0u8; cap]);
                        let (r1, r2) = (w.read(&mut b1), t.read(&mut b2));
                        if kind_of(&r1) != kind_of(&r2) || r1.as_ref().ok() != r2.as_ref().ok() || b1 != b2 {
                            return Err(format!("read: wrapped {r1:?} {:?} vs twin {r2:?} {:?}", b1, b2));
                        }
                        if let Ok(n) = r2 {
                            model = model.wrapping_add(n as u64);
                        }
                    }
                    "read_vectored" => {
                        let caps = [op.n0() as usize, op.n1() as usize, op.n2() as usize];
                        let mut a: Vec<Vec<u8>> = caps.iter().map(|c| vec![0u8; *c]).collect();
                        let mut b: Vec<Vec<u8>> = caps.iter().map(|c| vec![0u8; *c]).collect();
                        let r1 = {
                            let mut s: Vec<IoSliceMut<'_>> = a.iter_mut().map(|v| IoSliceMut::new(v)).collect();
                            w.read_vectored(&mut s)
                        };
                        let r2 = {
                            let mut s: Vec<IoSliceMut<'_>> = b.iter_mut().map(|v| IoSliceMut::new(v)).collect();
                            t.read_vectored(&mut s)
                        };
                        if kind_of(&r1) != kind_of(&r2) || r1.as_ref().ok() != r2.as_ref().ok() || a != b {
                            return Err(format!("read_vectored: wrapped {r1:?} vs twin {r2:?}"));
                        }
                        if let Ok(n) = r2 {
                            model = model.wrapping_add(n as u64);
                        }
                    }
                    "read_exact" => {
                        let cap = op.n0() as usize;
                        let (mut b1, mut b2) = (vec![0u8; cap], vec![0u8; cap]);
                        let before = t.pos;
                        let (r1, r2) = (w.read_exact(&mut b1), t.read_exact(&mut b2));
                        if kind_of(&r1) != kind_of(&r2) || (r2.is_ok() && b1 != b2) {
                            return Err(format!("read_exact: wrapped {r1:?} vs twin {r2:?}"));
                        }
                        match r2 {
                            Ok(()) => model = model.wrapping_add(cap as u64),
                            Err(_) => slack = (t.pos - before) as u64,
                        }
                    }
                    "read_to_string" => {
                        // into a String that already holds `pre` characters
                        let pre = op.n0() as usize;
                        let (mut s1, mut s2) = ("#".repeat(pre), "#".repeat(pre));
                        let before = t.pos;
                        let (r1, r2) = (w.read_to_string(&mut s1), t.read_to_string(&mut s2));
                        if kind_of(&r1) != kind_of(&r2) || r1.as_ref().ok() != r2.as_ref().ok() || s1 != s2 {
                            return Err(format!("read_to_string: wrapped {r1:?} vs twin {r2:?}"));
                        }
                        match r2 {
                            Ok(n) => model = model.wrapping_add(n as u64),
                            Err(_) => slack = (t.pos - before) as u64,
                        }
                    }
                    "read_to_end" => {
                        // into a Vec that already holds `pre` bytes
                        let pre = op.n0() as usize;
                        let (mut v1, mut v2) = (vec![b'#'; pre], vec![b'#'; pre]);
                        let before = t.pos;
                        let (r1, r2) = (w.read_to_end(&mut v1), t.read_to_end(&mut v2));
                        if kind_of(&r1) != kind_of(&r2) || r1.as_ref().ok() != r2.as_ref().ok() || v1 != v2 {
                            return Err(format!("read_to_end: wrapped {r1:?} vs twin {r2:?}"));
                        }
                        match r2 {
                            Ok(n) => model = model.wrapping_add(n as u64),
                            Err(_) => slack = (t.pos - before) as u64,
                        }
                    }
                    "fill_buf" => {
                        let r1 = w.fill_buf().map(|b| b.to_vec());
                        let r2 = t.fill_buf().map(|b| b.to_vec());
                        if kind_of(&r1) != kind_of(&r2) || r1.as_ref().ok() != r2.as_ref().ok() {
                            return Err(format!("fill_buf: wrapped {r1:?} vs twin {r2:?}"));
                        }
                        if let Ok(b) = r2 {
                            last_fill = b.len();
                        }
                    }
                    "consume" => {
                        let amt = if last_fill == 0 { 0 } else { (op.n0() as usize) % (last_fill + 1) };
                        w.consume(amt);
                        t.consume(amt);
                        last_fill -= amt;
                        model = model.wrapping_add(amt as u64);
                    }
                    "write" => {
                        let len = op.n0() as usize;
                        let buf: Vec<u8> = (0..len).map(|j| (j % 251) as u8).collect();
                        let (r1, r2) = (w.write(&buf), t.write(&buf));
                        if kind_of(&r1) != kind_of(&r2) || r1.as_ref().ok() != r2.as_ref().ok() {
                            return Err(format!("write: wrapped {r1:?} vs twin {r2:?}"));
                        }
                        if let Ok(n) = r2 {
                            model = model.wrapping_add(n as u64);
                        }
                    }
                    "write_vectored" => {
                        // (one call in three starts with an empty slice)
                        let a: Vec<u8> = vec![1u8; if op.n1() % 3 == 0 { 0 } else { op.n0() as usize }];
                        let b: Vec<u8> = vec![2u8; op.n1() as usize];
                        let c: Vec<u8> = vec![6u8; (op.n0() / 2) as usize];
                        let s = [IoSlice::new(&a), IoSlice::new(&b), IoSlice::new(&c)];
                        let (r1, r2) = (w.write_vectored(&s), t.write_vectored(&s));
                        if kind_of(&r1) != kind_of(&r2) || r1.as_ref().ok() != r2.as_ref().ok() {
                            return Err(format!("write_vectored: wrapped {r1:?} vs twin {r2:?}"));
                        }
                        if let Ok(n) = r2 {
                            model = model.wrapping_add(n as u64);
                        }
                    }
                    "flush" => {
                        let (r1, r2) = (w.flush(), t.flush());
                        if kind_of(&r1) != kind_of(&r2) {
                            return Err(format!("flush: wrapped {r1:?} vs twin {r2:?}"));
                        }
                    }
                    "seek" => {
                        let off = op.n1() as i64 - 40;
                        let f = match op.n0() % 3 {
                            0 => SeekFrom::Start(op.n1()),
                            1 => SeekFrom::End(off),
                            _ => SeekFrom::Current(off),
                        };
                        let (r1, r2) = (w.seek(f), t.seek(f));
                        if kind_of(&r1) != kind_of(&r2) || r1.as_ref().ok() != r2.as_ref().ok() {
                            return Err(format!("seek({f:?}): wrapped {r1:?} vs twin {r2:?}"));
                        }
                        if let Ok(p) = r2 {
                            model = p;
                            last_fill = 0;
                        }
                    }
                    "stream_position" => {
                        let (r1, r2) = (w.stream_position(), t.stream_position());
                        if kind_of(&r1) != kind_of(&r2) || r1.as_ref().ok() != r2.as_ref().ok() {
                            return Err(format!("stream_position: wrapped {r1:?} vs twin {r2:?}"));
                        }
                        if r2.is_ok() {
                            last_fill = 0;
                        }
                    }
                    // provided methods of the std traits (they go through the calls above, or
                    // count alike if overridden)
                    "write_all" => {
                        let len = op.n0() as usize;
                        let buf: Vec<u8> = (0..len).map(|j| (j % 13) as u8).collect();
                        let before = t.written.len();
                        let (r1, r2) = (w.write_all(&buf), t.write_all(&buf));
                        if kind_of(&r1) != kind_of(&r2) {
                            return Err(format!("write_all: wrapped {r1:?} vs twin {r2:?}"));
                        }
                        match r2 {
                            Ok(()) => model = model.wrapping_add(len as u64),
                            // everything that went through before the error may be counted
                            Err(_) => slack = (t.written.len() - before) as u64,
                        }
                    }
                    "read_until" => {
                        let delim = b'a' + (op.n0() % 26) as u8;
                        let (mut v1, mut v2) = (vec![], vec![]);
                        let before = t.pos;
                        let (r1, r2) = (w.read_until(delim, &mut v1), t.read_until(delim, &mut v2));
                        if kind_of(&r1) != kind_of(&r2) || r1.as_ref().ok() != r2.as_ref().ok() || v1 != v2 {
                            return Err(format!("read_until: wrapped {r1:?} {v1:?} vs twin {r2:?} {v2:?}"));
                        }
                        // (the bytes consumed before an error are in the caller's buffer: they
                        // count, with or without an error)
                        let _ = r2;
                        model = model.wrapping_add((t.pos - before) as u64);
                        last_fill = 0;
                    }
                    "bytes_next" => {
                        let before = t.pos;
                        let r1 = std::io::Read::by_ref(&mut w).bytes().next();
                        let r2 = std::io::Read::by_ref(&mut t).bytes().next();
                        let same = match (&r1, &r2) {
                            (None, None) => true,
                            (Some(a), Some(b)) => kind_of(a) == kind_of(b) && a.as_ref().ok() == b.as_ref().ok(),
                            _ => false,
                        };
                        if !same {
                            return Err(format!("bytes().next(): wrapped {r1:?} vs twin {r2:?}"));
                        }
                        model = model.wrapping_add((t.pos - before) as u64);
                    }
                    "io_copy" => {
                        let (mut s1, mut s2): (Vec<u8>, Vec<u8>) = (vec![], vec![]);
                        let before = t.pos;
                        let (r1, r2) = (std::io::copy(&mut w, &mut s1), std::io::copy(&mut t, &mut s2));
                        if kind_of(&r1) != kind_of(&r2) || r1.as_ref().ok() != r2.as_ref().ok() || s1 != s2 {
                            return Err(format!("io::copy: wrapped {r1:?} vs twin {r2:?}"));
                        }
                        match r2 {
                            Ok(n) => model = model.wrapping_add(n),
                            Err(_) => slack = (t.pos - before) as u64,
                        }
                        last_fill = 0;
                    }
                    "rewind" => {
                        let (r1, r2) = (w.rewind(), t.rewind());
                        if kind_of(&r1) != kind_of(&r2) {
                            return Err(format!("rewind: wrapped {r1:?} vs twin {r2:?}"));
                        }
                        if r2.is_ok() {
                            model = 0;
                            last_fill = 0;
                        }
                    }
                    "seek_relative" => {
                        let off = op.n0() as i64 - 20;
                        let (r1, r2) = (w.seek_relative(off), t.seek_relative(off));
                        if kind_of(&r1) != kind_of(&r2) {
                            return Err(format!("seek_relative({off}): wrapped {r1:?} vs twin {r2:?}"));
                        }
                        if r2.is_ok() {
                            model = t.pos as u64;
                            last_fill = 0;
                        }
                    }
                    "advance" => verif_simrt::sched::advance_quiet(op.n0()),
                    other => return Err(format!("HARNESS unknown op {other}")),
                }
                Ok(())
            });
            match step {
                Err(p) => {
                    r.violate("C17.no_panic", format!("{at} panicked: {p}"));
                    break;
                }
                Ok(Err(d)) => {
                    if d.starts_with("HARNESS") {
                        r.harness_error = Some(d);
                    } else {
                        r.violate("C17.transparency", format!("{at}: {d}"));
                    }
                    break;
                }
                Ok(Ok(())) => {}
            }
            {
                let m = mirror.lock().unwrap();
                if m.1 != t.written || m.0 != t.pos {
                    r.violate(
                        "C17.transparency",
                        format!("{at}: underlying object state diverged: wrapped inner pos={} twin pos={}", m.0, t.pos),
                    );
                    break;
                }
            }
            let p = check_pos(&mut r, &pb, model, slack, &at);
            if r.violation.is_some() {
                break;
            }
            model = p; // absorb permitted slack
        }
        let s = &t.stats;
        for (k, v) in [
            ("short_transfer", s.short),
            ("eof", s.eof),
            ("eintr", s.err_interrupted),
            ("ewouldblock", s.err_wouldblock),
            ("eio", s.err_other),
            ("seek_error", s.seek_err),
            ("zero_write", s.zero_write),
        ] {
            if v > 0 {
                *r.faults.entry(k.to_string()).or_insert(0) += v;
            }
        }
        r.nontrivial = ops.len() >= 2 && (s.short + s.err_interrupted + s.err_wouldblock + s.err_other + s.eof) > 0;
        // cancellation: dropping the wrapper leaves the count where it was
        let before = pb.position();
        drop(w);
        if pb.position() != before {
            r.violate("C17.position", format!("dropping the wrapper changed position() from {before} to {}", pb.position()));
        }
        r
    });
    finish_report(res, out)
}

fn exec_aio(sc: &Scenario) -> Report {
    let sc2 = sc.clone();
    let (res, out) = World::run(Config::sequential(sc.seed), move || {
        let sc = sc2;
        let mut r = Report::default();
        let (pb, _term) = mk_pb(&sc);
        let mk = || {
            let mut io = SimIo::new(sc.seed ^ 0xA510, sc.c("data_len") as usize, sc.c("p_err"), sc.c("p_short"), sc.c("p_pending"));
            io.vectored = sc.c("scalar_sink") != 1;
            io
        };
        let inner = mk();
        let mirror = inner.mirror.clone();
        let mut w: ProgressBarIter<SimIo> = if sc.c("ctor") == 1 { pb.wrap_async_write(inner) } else { pb.wrap_async_read(inner) };
        let mut t = mk();
        let (waker, wakes) = counting_waker();
        let mut cx = Context::from_waker(&waker);
        let mut model: u64 = 0;
        let mut last_fill: usize = 0;
        let ops = sc.threads.first().cloned().unwrap_or_default();
        for (i, op) in ops.iter().enumerate() {
            let at = format!("op#{i} {}", op.short());
            let step = call(|| -> Result<(), String> {
                match op.k.as_str() {
                    "poll_read" => {
                        let cap = op.n0() as usize;
                        let pre = (op.n1() as usize).min(cap);
                        let (mut b1, mut b2) = (vec![0u8; cap], vec![0u8; cap]);
                        let (mut rb1, mut rb2) = (ReadBuf::new(&mut b1), ReadBuf::new(&mut b2));
                        rb1.put_slice(&vec![b'#'; pre]);
                        rb2.put_slice(&vec![b'#'; pre]);
                        let r1 = Pin::new(&mut w).poll_read(&mut cx, &mut rb1);
                        let r2 = Pin::new(&mut t).poll_read(&mut cx, &mut rb2);
                        let same = match (&r1, &r2) {
                            (Poll::Pending, Poll::Pending) => true,
                            (Poll::Ready(a), Poll::Ready(b)) => kind_of(a) == kind_of(b),
                            _ => false,
                        };
                        if !same || rb1.filled() != rb2.filled() {
                            return Err(format!("poll_read: wrapped {r1:?} filled {:?} vs twin {r2:?} filled {:?}", rb1.filled(), rb2.filled()));
                        }
                        model = model.wrapping_add((rb2.filled().len() - pre) as u64);
                    }
                    "poll_fill_buf" => {
                        let r1 = Pin::new(&mut w).poll_fill_buf(&mut cx).map(|x| x.map(|b| b.to_vec()));
                        let r2 = Pin::new(&mut t).poll_fill_buf(&mut cx).map(|x| x.map(|b| b.to_vec()));
                        let same = match (&r1, &r2) {
                            (Poll::Pending, Poll::Pending) => true,
                            (Poll::Ready(a), Poll::Ready(b)) => kind_of(a) == kind_of(b) && a.as_ref().ok() == b.as_ref().ok(),
                            _ => false,
                        };
                        if !same {
                            return Err(format!("poll_fill_buf: wrapped {r1:?} vs twin {r2:?}"));
                        }
                        if let Poll::Ready(Ok(b)) = r2 {
                            last_fill = b.len();
                        }
                    }
                    "aconsume" => {
                        let amt = if last_fill == 0 { 0 } else { (op.n0() as usize) % (last_fill + 1) };
                        AsyncBufRead::consume(Pin::new(&mut w), amt);
                        AsyncBufRead::consume(Pin::new(&mut t), amt);
                        last_fill -= amt;
                        model = model.wrapping_add(amt as u64);
                    }
                    "poll_write" => {
                        let buf: Vec<u8> = (0..op.n0() as usize).map(|j| (j % 199) as u8).collect();
                        let r1 = Pin::new(&mut w).poll_write(&mut cx, &buf);
                        let r2 = Pin::new(&mut t).poll_write(&mut cx, &buf);
                        let same = match (&r1, &r2) {
                            (Poll::Pending, Poll::Pending) => true,
                            (Poll::Ready(a), Poll::Ready(b)) => kind_of(a) == kind_of(b) && a.as_ref().ok() == b.as_ref().ok(),
                            _ => false,
                        };
                        if !same {
                            return Err(format!("poll_write: wrapped {r1:?} vs twin {r2:?}"));
                        }
                        if let Poll::Ready(Ok(n)) = r2 {
                            model = model.wrapping_add(n as u64);
                        }
                    }
                    "poll_write_vectored" => {
                        // (one call in three starts with an empty slice)
                        let a: Vec<u8> = vec![3u8; if op.n1() % 3 == 0 { 0 } else { op.n0() as usize }];
                        let b: Vec<u8> = vec![4u8; op.n1() as usize];
                        let c: Vec<u8> = vec![5u8; (op.n0() / 2) as usize];
                        let bufs = [IoSlice::new(&a), IoSlice::new(&b), IoSlice::new(&c)];
                        let (v1, v2) = (tokio::io::AsyncWrite::is_write_vectored(&w), tokio::io::AsyncWrite::is_write_vectored(&t));
                        if v1 != v2 {
                            return Err(format!("is_write_vectored: wrapped {v1} vs twin {v2}"));
                        }
                        let r1 = Pin::new(&mut w).poll_write_vectored(&mut cx, &bufs);
                        let r2 = Pin::new(&mut t).poll_write_vectored(&mut cx, &bufs);
                        let same = match (&r1, &r2) {
                            (Poll::Pending, Poll::Pending) => true,
                            (Poll::Ready(a), Poll::Ready(b)) => kind_of(a) == kind_of(b) && a.as_ref().ok() == b.as_ref().ok(),
                            _ => false,
                        };
                        if !same {
                            return Err(format!("poll_write_vectored: wrapped {r1:?} vs twin {r2:?}"));
                        }
                        if let Poll::Ready(Ok(n)) = r2 {
                            model = model.wrapping_add(n as u64);
                        }
                    }
                    "poll_flush" | "poll_shutdown" => {
                        let (r1, r2) = if op.k == "poll_flush" {
                            (Pin::new(&mut w).poll_flush(&mut cx), Pin::new(&mut t).poll_flush(&mut cx))
                        } else {
                            (Pin::new(&mut w).poll_shutdown(&mut cx), Pin::new(&mut t).poll_shutdown(&mut cx))
                        };
                        let same = match (&r1, &r2) {
                            (Poll::Pending, Poll::Pending) => true,
                            (Poll::Ready(a), Poll::Ready(b)) => kind_of(a) == kind_of(b),
                            _ => false,
                        };
                        if !same {
                            return Err(format!("{}: wrapped {r1:?} vs twin {r2:?}", op.k));
                        }
                    }
                    "aseek" => {
                        let f = SeekFrom::Start(op.n0());
                        let (s1, s2) = (Pin::new(&mut w).start_seek(f), Pin::new(&mut t).start_seek(f));
                        if kind_of(&s1) != kind_of(&s2) {
                            return Err(format!("start_seek: wrapped {s1:?} vs twin {s2:?}"));
                        }
                        let mut seek_done = false;
                        for _ in 0..5 {
                            let r1 = Pin::new(&mut w).poll_complete(&mut cx);
                            let r2 = Pin::new(&mut t).poll_complete(&mut cx);
                            let same = match (&r1, &r2) {
                                (Poll::Pending, Poll::Pending) => true,
                                (Poll::Ready(a), Poll::Ready(b)) => kind_of(a) == kind_of(b) && a.as_ref().ok() == b.as_ref().ok(),
                                _ => false,
                            };
                            if !same {
                                return Err(format!("poll_complete: wrapped {r1:?} vs twin {r2:?}"));
                            }
                            if r2.is_ready() {
                                seek_done = matches!(r2, Poll::Ready(Ok(_)));
                                break;
                            }
                        }
                        last_fill = 0;
                        // a seek sets the position to the new offset
                        // (a seek that failed, or has not completed yet, leaves the bar where it was)
                        if seek_done {
                            model = t.pos as u64;
                        }
                    }
                    "advance" => verif_simrt::sched::advance_quiet(op.n0()),
                    other => return Err(format!("HARNESS unknown op {other}")),
                }
                Ok(())
            });
            match step {
                Err(p) => {
                    r.violate("C17.no_panic", format!("{at} panicked: {p}"));
                    break;
                }
                Ok(Err(d)) => {
                    if d.starts_with("HARNESS") {
                        r.harness_error = Some(d);
                    } else {
                        r.violate("C17.transparency", format!("{at}: {d}"));
                    }
                    break;
                }
                Ok(Ok(())) => {}
            }
            {
                let m = mirror.lock().unwrap();
                if m.1 != t.written || m.0 != t.pos {
                    r.violate("C17.transparency", format!("{at}: underlying object state diverged"));
                    break;
                }
            }
            check_pos(&mut r, &pb, model, 0, &at);
            if r.violation.is_some() {
                break;
            }
        }
        let s = &t.stats;
        for (k, v) in [
            ("short_transfer", s.short),
            ("eof", s.eof),
            ("eintr", s.err_interrupted),
            ("ewouldblock", s.err_wouldblock),
            ("eio", s.err_other),
            ("poll_pending", s.pending),
            ("partial_read_then_error", s.partial_then_error),
        ] {
            if v > 0 {
                *r.faults.entry(k.to_string()).or_insert(0) += v;
            }
        }
        r.probe_n("waker_wakes", wakes.load(std::sync::atomic::Ordering::SeqCst));
        r.nontrivial = ops.len() >= 2 && (s.short + s.pending + s.err_other + s.err_interrupted + s.err_wouldblock) > 0;
        r
    });
    finish_report(res, out)
}

fn expected_after_exhaustion(sc: &Scenario, pos_before: u64) -> u64 {
    let code = sc.c("on_finish") % 5;
    if code <= 2 && sc.c("len_known") == 1 {
        sc.c("len0")
    } else {
        pos_before
    }
}

fn exec_iter(sc: &Scenario) -> Report {
    let sc2 = sc.clone();
    let (res, out) = World::run(Config::sequential(sc.seed), move || {
        let sc = sc2;
        let mut r = Report::default();
        let (pb, _term) = mk_pb(&sc);
        let n = sc.c("n_items") as usize;
        let mut model: u64 = 0;
        let mut exhausted = false;
        let ops = sc.threads.first().cloned().unwrap_or_default();
        if sc.mode == "stream" {
            // (optionally a bar that was moved and abandoned before, as for iterators below)
            let pre_fin = sc.c("pre_finished") == 1;
            if pre_fin {
                pb.set_position(3);
                pb.abandon();
                model = 3;
            }
            let inner_fin = sc.c("inner_finishes") == 1 && !pre_fin;
            let src = SimItems::new(sc.seed, n, sc.c("p_pending"));
            let mut w = pb.wrap_stream(if inner_fin { src.with_on_dry(pb.clone()) } else { src });
            let mut t = SimItems::new(sc.seed, n, sc.c("p_pending"));
            let (waker, _wakes) = counting_waker();
            let mut cx = Context::from_waker(&waker);
            for (i, op) in ops.iter().enumerate() {
                let at = format!("op#{i} {}", op.short());
                if op.k == "advance" {
                    verif_simrt::sched::advance_quiet(op.n0());
                    continue;
                }
                let (h1, h2) = (futures_core::Stream::size_hint(&w), futures_core::Stream::size_hint(&t));
                if h1 != h2 {
                    r.violate("C17.transparency", format!("{at}: size_hint of the wrapped stream {h1:?} vs the stream itself {h2:?}"));
                    break;
                }
                let step = call(|| (Pin::new(&mut w).poll_next(&mut cx), Pin::new(&mut t).poll_next(&mut cx)));
                match step {
                    Err(p) => {
                        r.violate("C17.no_panic", format!("{at} panicked: {p}"));
                        break;
                    }
                    Ok((r1, r2)) => {
                        if r1 != r2 {
                            r.violate("C17.transparency", format!("{at}: wrapped {r1:?} vs twin {r2:?}"));
                            break;
                        }
                        match r2 {
                            Poll::Ready(Some(_)) => model += 1,
                            Poll::Ready(None) => {
                                if !exhausted {
                                    exhausted = true;
                                    if !pre_fin && !inner_fin {
                                        model = expected_after_exhaustion(&sc, model);
                                    }
                                    if inner_fin {
                                        // the source finished the bar itself inside that poll: the
                                        // adaptor leaves an already finished bar alone
                                        if pb.message() != "inner" {
                                            r.violate("C17.finish_on_exhaustion", format!("{at}: the stream abandoned the bar with the message \"inner\" in the poll that returned None; message() is {:?}", pb.message()));
                                        }
                                        r.probe("inner_finishes");
                                    }
                                    r.probe("exhausted");
                                }
                            }
                            Poll::Pending => r.fault("poll_pending"),
                        }
                    }
                }
                check_pos(&mut r, &pb, model, 0, &at);
                if pb.is_finished() != (exhausted || pre_fin) {
                    r.violate("C17.finish_on_exhaustion", format!("{at}: is_finished() = {} but stream exhausted = {exhausted}", pb.is_finished()));
                }
                if r.violation.is_some() {
                    break;
                }
            }
            r.nontrivial = ops.len() >= 2;
            drop(w);
            return r;
        }
        // optionally the bar has been used before: moved and abandoned (a second pass over the
        // same bar); wrapping it changes nothing, items keep counting from where it stands, and an
        // already finished bar is not finished a second time
        let pre_fin = sc.c("pre_finished") == 1;
        if pre_fin {
            pb.set_position(3);
            pb.abandon();
            model = 3;
        }
        let inner_fin = sc.c("inner_finishes") == 1 && !pre_fin;
        let src = SimItems::new(sc.seed, n, 0);
        let src = if inner_fin { src.with_on_dry(pb.clone()) } else { src };
        let mut w = if sc.c("ctor") == 1 { pb.wrap_iter(src) } else { src.progress_with(pb.clone()) };
        if pre_fin {
            check_pos(&mut r, &pb, model, 0, "wrapping an already finished bar");
            if !pb.is_finished() {
                r.violate("C17.position", "wrapping an already finished bar made it unfinished".to_string());
            }
        }
        let mut t = SimItems::new(sc.seed, n, 0);
        for (i, op) in ops.iter().enumerate() {
            let at = format!("op#{i} {}", op.short());
            // (items handed out, the wrapped iterator's next()/next_back() returned None)
            let step = call(|| -> Result<(u64, bool), String> {
                let before = t.len() as u64;
                macro_rules! same {
                    ($name:expr, $a:expr, $b:expr) => {{
                        let (a, b) = ($a, $b);
                        if a != b {
                            return Err(format!("{}: wrapped {a:?} vs twin {b:?}", $name));
                        }
                        b
                    }};
                }
                let k = op.n0() as usize;
                let hit_end = match op.k.as_str() {
                    "next" => same!("next", w.next(), t.next()).is_none(),
                    "next_back" => same!("next_back", w.next_back(), t.next_back()).is_none(),
                    "len" => {
                        same!("len", w.len(), t.len());
                        same!("size_hint", Iterator::size_hint(&w), Iterator::size_hint(&t));
                        false
                    }
                    // provided methods: they must go through next()/next_back() (or count alike)
                    "nth" => same!("nth", w.by_ref().nth(k), t.by_ref().nth(k)).is_none(),
                    "nth_back" => same!("nth_back", w.by_ref().nth_back(k), t.by_ref().nth_back(k)).is_none(),
                    "take_count" => same!("take.count", w.by_ref().take(k).count(), t.by_ref().take(k).count()) < k,
                    "rev_next" => same!("rev.next", w.by_ref().rev().next(), t.by_ref().rev().next()).is_none(),
                    "last" => {
                        same!("last", w.by_ref().last(), t.by_ref().last());
                        true
                    }
                    "sum_rest" => {
                        same!("fold", w.by_ref().fold(0u64, |a, x| a.wrapping_mul(31).wrapping_add(x as u64)), t.by_ref().fold(0u64, |a, x| a.wrapping_mul(31).wrapping_add(x as u64)));
                        true
                    }
                    "find" => same!("find", w.by_ref().find(|x| *x as usize % 5 == k % 5), t.by_ref().find(|x| *x as usize % 5 == k % 5)).is_none(),
                    "advance" => {
                        verif_simrt::sched::advance_quiet(op.n0());
                        false
                    }
                    other => return Err(format!("HARNESS unknown op {other}")),
                };
                Ok((before - t.len() as u64, hit_end))
            });
            match step {
                Err(p) => {
                    r.violate("C17.no_panic", format!("{at} panicked: {p}"));
                    break;
                }
                Ok(Err(d)) => {
                    if d.starts_with("HARNESS") {
                        r.harness_error = Some(d);
                    } else {
                        r.violate("C17.transparency", format!("{at}: {d}"));
                    }
                    break;
                }
                Ok(Ok((consumed, hit_end))) => {
                    if !exhausted {
                        model += consumed;
                    }
                    if hit_end && !exhausted {
                        exhausted = true;
                        if !pre_fin && !inner_fin {
                            model = expected_after_exhaustion(&sc, model);
                        }
                        if inner_fin {
                            if pb.message() != "inner" {
                                r.violate("C17.finish_on_exhaustion", format!("{at}: the iterator abandoned the bar with the message \"inner\" in the call that returned None; message() is {:?}", pb.message()));
                            }
                            r.probe("inner_finishes");
                        }
                        r.probe("exhausted");
                    }
                }
            }
            check_pos(&mut r, &pb, model, 0, &at);
            if pb.is_finished() != (exhausted || pre_fin) {
                r.violate("C17.finish_on_exhaustion", format!("{at}: is_finished() = {} but iterator exhausted = {exhausted}", pb.is_finished()));
            }
            if r.violation.is_some() {
                break;
            }
        }
        let by_value = sc.c("consume_by_value");
        if by_value == 5 && r.violation.is_none() && r.harness_error.is_none() {
            // `.fuse()` on top of the adaptor over an iterator that is NOT fused (it yields items
            // again after a None): the adaptor must not claim more than the wrapped iterator does
            let step = call(|| {
                let pb2 = ProgressBar::hidden();
                let mut a = Unfused(0).progress_with(pb2).fuse();
                let mut b = Unfused(0).fuse();
                let (mut x, mut y) = (vec![], vec![]);
                for _ in 0..9 {
                    x.push(a.next());
                    y.push(b.next());
                }
                (x, y)
            });
            match step {
                Err(p) => r.violate("C17.no_panic", format!("fuse() over the adaptor panicked: {p}")),
                Ok((x, y)) => {
                    if x != y {
                        r.violate("C17.transparency", format!("fuse() over the adaptor of an unfused iterator yields {x:?}, over the iterator itself {y:?}"));
                    }
                }
            }
            r.probe("fuse_over_unfused");
        }
        if by_value > 0 && by_value < 5 && r.violation.is_none() && r.harness_error.is_none() {
            // the rest is consumed by internal iteration, which takes the wrapper by value
            // (for_each / count / last / fold): same items, same count, same finish
            let rest = t.len() as u64;
            let step = call(|| -> Result<(), String> {
                let f = |a: u64, x: u32| a.wrapping_mul(31).wrapping_add(x as u64);
                let (a, b): (u64, u64) = match by_value {
                    1 => {
                        let (mut x, mut y) = (0u64, 0u64);
                        w.for_each(|v| x = f(x, v));
                        t.for_each(|v| y = f(y, v));
                        (x, y)
                    }
                    2 => (w.count() as u64, t.count() as u64),
                    3 => (w.last().map_or(u64::MAX, |v| v as u64), t.last().map_or(u64::MAX, |v| v as u64)),
                    _ => (w.fold(0, f), t.fold(0, f)),
                };
                if a != b {
                    return Err(format!("internal iteration (kind {by_value}): wrapped {a} vs twin {b}"));
                }
                Ok(())
            });
            let at = format!("by-value consumption (kind {by_value})");
            match step {
                Err(p) => r.violate("C17.no_panic", format!("{at} panicked: {p}")),
                Ok(Err(d)) => r.violate("C17.transparency", format!("{at}: {d}")),
                Ok(Ok(())) => {
                    if !exhausted {
                        model += rest;
                        if !pre_fin && !inner_fin {
                            model = expected_after_exhaustion(&sc, model);
                        }
                    }
                    check_pos(&mut r, &pb, model, 0, &at);
                    if !pb.is_finished() {
                        r.violate("C17.finish_on_exhaustion", format!("{at}: the iterator was exhausted but is_finished() is false"));
                    }
                    r.probe("exhausted_by_internal_iteration");
                }
            }
            r.nontrivial = true;
            return r;
        }
        // dropping an unexhausted wrapper (cancellation) leaves the count alone
        let before = pb.position();
        drop(w);
        if pb.position() != before {
            r.violate("C17.position", format!("dropping the iterator wrapper changed position() from {before} to {}", pb.position()));
        }
        r.nontrivial = ops.len() >= 2;
        r
    });
    finish_report(res, out)
}

// ------------------------------------------------------------------------------------------
// Rayon: seeded split driver over the real plumbing traits
// ------------------------------------------------------------------------------------------

struct Driver {
    rng: StdMutex<Rng>,
    max_depth: u32,
    use_threads: bool,
    leaves: StdMutex<u64>,
    splits: StdMutex<u64>,
    degenerate_splits: StdMutex<u64>,
    started: std::sync::atomic::AtomicU64,
    completed: std::sync::atomic::AtomicU64,
    /// leaves hand their items over with Folder::consume_iter (like rayon's bridge) instead of
    /// one consume() per item; 2 = through an iterator with an inexact size_hint
    leaf_iter_mode: u64,
    pb: ProgressBar,
    bad: StdMutex<Option<String>>,
}

impl Driver {
    fn draw(&self, n: u64) -> u64 {
        self.rng.lock().unwrap().below(n)
    }
    /// one item goes through `f` (which makes the wrapper count it); the position observed
    /// afterwards must lie between the items completed and the items started so far
    fn item<R>(&self, f: impl FnOnce() -> R) -> R {
        use std::sync::atomic::Ordering::SeqCst;
        self.started.fetch_add(1, SeqCst);
        let r = f();
        self.completed.fetch_add(1, SeqCst);
        let lo = self.completed.load(SeqCst);
        let p = self.pb.position();
        let hi = self.started.load(SeqCst);
        if p < lo || p > hi {
            let mut b = self.bad.lock().unwrap();
            if b.is_none() {
                *b = Some(format!("position() = {p} observed while {lo} items had completed and {hi} had started"));
            }
        }
        r
    }
}

/// Run `a` and `b` "in parallel": b on a simulated thread when threads are enabled.
fn join2<RA: Send, RB: Send>(drv: &Driver, a: impl FnOnce() -> RA + Send, b: impl FnOnce() -> RB + Send) -> (RA, RB) {
    if drv.use_threads && verif_simrt::sched::in_world() {
        let slot: Arc<StdMutex<Option<RB>>> = Arc::new(StdMutex::new(None));
        let s2 = slot.clone();
        let bb: Box<dyn FnOnce() + Send + '_> = Box::new(move || {
            let v = b();
            *s2.lock().unwrap() = Some(v);
        });
        // SAFETY: the spawned simulated thread is always joined before this function returns
        // (also when `a` panics: the join happens in the guard), exactly like a scoped thread.
        let bb: Box<dyn FnOnce() + Send + 'static> = unsafe { std::mem::transmute(bb) };
        let h = verif_simrt::thread::spawn_named("user", bb);
        struct J(Option<verif_simrt::thread::JoinHandle<()>>);
        impl Drop for J {
            fn drop(&mut self) {
                if let Some(h) = self.0.take() {
                    let _ = h.join();
                }
            }
        }
        let mut j = J(Some(h));
        let ra = a();
        let jr = j.0.take().unwrap().join();
        if let Err(p) = jr {
            std::panic::resume_unwind(p);
        }
        let rb = slot.lock().unwrap().take().expect("leaf result");
        (ra, rb)
    } else if drv.draw(2) == 0 {
        let ra = a();
        let rb = b();
        (ra, rb)
    } else {
        let rb = b();
        let ra = a();
        (ra, rb)
    }
}

fn split_index(drv: &Driver, len: usize) -> usize {
    // include the degenerate splits 0 and len
    match drv.draw(10) {
        0 => {
            *drv.degenerate_splits.lock().unwrap() += 1;
            0
        }
        1 => {
            *drv.degenerate_splits.lock().unwrap() += 1;
            len
        }
        _ => drv.draw(len as u64 + 1) as usize,
    }
}

/// fold one leaf: per-item consume() with the in-flight position bound, or consume_iter()
fn leaf_fold<F: Folder<u32>>(drv: &Driver, mut f: F, items: Vec<u32>) -> F::Result {
    match drv.leaf_iter_mode {
        0 => {
            for it in items {
                if f.full() {
                    break;
                }
                f = drv.item(|| f.consume(it));
            }
        }
        1 => f = f.consume_iter(items),
        _ => f = f.consume_iter(items.into_iter().filter(|x| *x != u32::MAX)),
    }
    f.complete()
}

fn drive_rec<C: Consumer<u32>>(drv: &Driver, items: Vec<u32>, c: C, depth: u32) -> C::Result {
    if depth >= drv.max_depth || items.is_empty() || drv.draw(4) == 0 {
        *drv.leaves.lock().unwrap() += 1;
        let f = c.into_folder();
        return leaf_fold(drv, f, items);
    }
    *drv.splits.lock().unwrap() += 1;
    let idx = split_index(drv, items.len());
    let (l, r, red) = c.split_at(idx);
    let mut li = items;
    let ri = li.split_off(idx);
    let (a, b) = join2(drv, || drive_rec(drv, li, l, depth + 1), || drive_rec(drv, ri, r, depth + 1));
    red.reduce(a, b)
}

fn drive_unindexed_rec<C: UnindexedConsumer<u32>>(drv: &Driver, items: Vec<u32>, c: C, depth: u32) -> C::Result {
    if depth >= drv.max_depth || items.is_empty() || drv.draw(4) == 0 {
        *drv.leaves.lock().unwrap() += 1;
        let f = c.into_folder();
        return leaf_fold(drv, f, items);
    }
    *drv.splits.lock().unwrap() += 1;
    let idx = split_index(drv, items.len());
    let left = c.split_off_left();
    let red = c.to_reducer();
    let mut li = items;
    let ri = li.split_off(idx);
    let (a, b) = join2(drv, || drive_unindexed_rec(drv, li, left, depth + 1), || drive_unindexed_rec(drv, ri, c, depth + 1));
    red.reduce(a, b)
}

fn produce_rec<P: Producer<Item = u32>>(drv: &Driver, p: P, len: usize, depth: u32) -> Vec<u32> {
    if depth >= drv.max_depth || len == 0 || drv.draw(4) == 0 {
        *drv.leaves.lock().unwrap() += 1;
        // like rayon's bridge: fold the whole iterator (runs it to exhaustion)
        let _ = (p.min_len(), p.max_len());
        let mut it = p.into_iter();
        let mut v = Vec::with_capacity(len);
        if drv.draw(4) == 0 {
            // walked from the back, as `rev()` placed after the wrapper does
            for _ in 0..len {
                match drv.item(|| it.next_back()) {
                    Some(x) => v.push(x),
                    None => break,
                }
            }
            v.extend(it.rev());
            v.reverse();
            return v;
        }
        for _ in 0..len {
            match drv.item(|| it.next()) {
                Some(x) => v.push(x),
                None => break,
            }
        }
        v.extend(it); // reaches None, as rayon's consume_iter does
        return v;
    }
    *drv.splits.lock().unwrap() += 1;
    let idx = split_index(drv, len);
    let (l, r) = p.split_at(idx);
    let (mut a, b) = join2(drv, || produce_rec(drv, l, idx, depth + 1), || produce_rec(drv, r, len - idx, depth + 1));
    a.extend(b);
    a
}

struct SimPar {
    items: Vec<u32>,
    drv: Arc<Driver>,
}

impl ParallelIterator for SimPar {
    type Item = u32;
    fn drive_unindexed<C: UnindexedConsumer<u32>>(self, consumer: C) -> C::Result {
        let drv = self.drv.clone();
        drive_unindexed_rec(&drv, self.items, consumer, 0)
    }
    fn opt_len(&self) -> Option<usize> {
        Some(self.items.len())
    }
}

impl IndexedParallelIterator for SimPar {
    fn len(&self) -> usize {
        self.items.len()
    }
    fn drive<C: Consumer<u32>>(self, consumer: C) -> C::Result {
        let drv = self.drv.clone();
        drive_rec(&drv, self.items, consumer, 0)
    }
    fn with_producer<CB: ProducerCallback<u32>>(self, callback: CB) -> CB::Output {
        callback.callback(VecProducer { items: self.items })
    }
}

struct VecProducer {
    items: Vec<u32>,
}
impl Producer for VecProducer {
    type Item = u32;
    type IntoIter = std::vec::IntoIter<u32>;
    fn into_iter(self) -> Self::IntoIter {
        self.items.into_iter()
    }
    fn split_at(mut self, index: usize) -> (Self, Self) {
        let r = self.items.split_off(index);
        (self, VecProducer { items: r })
    }
}

/// the user's consumer: collects; counts every item that reaches it; optionally "full" after a
/// number of items (short-circuiting consumers like find_any)
#[derive(Clone)]
struct CollectC {
    seen: Arc<std::sync::atomic::AtomicU64>,
    full_after: u64,
}
struct CollectF(Vec<u32>, CollectC);
struct CatR;
impl Consumer<u32> for CollectC {
    type Folder = CollectF;
    type Reducer = CatR;
    type Result = Vec<u32>;
    fn split_at(self, _index: usize) -> (Self, Self, CatR) {
        (self.clone(), self, CatR)
    }
    fn into_folder(self) -> CollectF {
        CollectF(vec![], self)
    }
    fn full(&self) -> bool {
        self.seen.load(std::sync::atomic::Ordering::SeqCst) >= self.full_after
    }
}
impl UnindexedConsumer<u32> for CollectC {
    fn split_off_left(&self) -> Self {
        self.clone()
    }
    fn to_reducer(&self) -> CatR {
        CatR
    }
}
impl Folder<u32> for CollectF {
    type Result = Vec<u32>;
    fn consume(mut self, item: u32) -> Self {
        self.1.seen.fetch_add(1, std::sync::atomic::Ordering::SeqCst);
        self.0.push(item);
        self
    }
    fn complete(self) -> Vec<u32> {
        self.0
    }
    fn full(&self) -> bool {
        self.1.seen.load(std::sync::atomic::Ordering::SeqCst) >= self.1.full_after
    }
}
impl Reducer<Vec<u32>> for CatR {
    fn reduce(self, mut left: Vec<u32>, right: Vec<u32>) -> Vec<u32> {
        left.extend(right);
        left
    }
}

struct ProdCb {
    drv: Arc<Driver>,
    len: usize,
}
impl ProducerCallback<u32> for ProdCb {
    type Output = Vec<u32>;
    fn callback<P: Producer<Item = u32>>(self, producer: P) -> Vec<u32> {
        produce_rec(&self.drv, producer, self.len, 0)
    }
}

fn exec_rayon(sc: &Scenario) -> Report {
    let sc2 = sc.clone();
    let mut cfg = sched_config(sc);
    cfg.atomics_yield = true;
    let (res, out) = World::run(cfg, move || {
        let sc = sc2;
        let mut r = Report::default();
        let (pb, _term) = mk_pb(&sc);
        let n = sc.c("n_items") as usize;
        let items: Vec<u32> = (0..n as u32).map(|i| i * 3 + 1).collect();
        let drv = Arc::new(Driver {
            rng: StdMutex::new(Rng::new(sc.seed ^ 0x5917)),
            max_depth: sc.c("max_depth") as u32,
            use_threads: sc.c("use_threads") == 1,
            leaves: StdMutex::new(0),
            splits: StdMutex::new(0),
            degenerate_splits: StdMutex::new(0),
            started: Default::default(),
            completed: Default::default(),
            leaf_iter_mode: sc.c("leaf_iter_mode"),
            pb: pb.clone(),
            bad: StdMutex::new(None),
        });
        let base = SimPar {
            items: items.clone(),
            drv: drv.clone(),
        };
        let inner_hint = (ParallelIterator::opt_len(&base), IndexedParallelIterator::len(&base));
        let wrapped = base.progress_with(pb.clone());
        let outer_hint = (ParallelIterator::opt_len(&wrapped), IndexedParallelIterator::len(&wrapped));
        if inner_hint != outer_hint {
            r.violate(
                "C17.transparency",
                format!("(opt_len, len) of the wrapped parallel iterator = {outer_hint:?}, of the iterator itself = {inner_hint:?}"),
            );
            return r;
        }
        let path = sc.c("path");
        let seen = Arc::new(std::sync::atomic::AtomicU64::new(0));
        let full_after = if sc.c("full_after") > 0 { sc.c("full_after") } else { u64::MAX };
        let user = CollectC { seen: seen.clone(), full_after };
        let got = call(|| match path {
            0 => wrapped.drive(user.clone()),
            1 => {
                let len = IndexedParallelIterator::len(&wrapped);
                wrapped.with_producer(ProdCb { drv: drv.clone(), len })
            }
            _ => wrapped.drive_unindexed(user.clone()),
        });
        match got {
            Err(p) => r.violate("C17.no_panic", format!("rayon path {path} panicked: {p}")),
            Ok(v) => {
                let short_circuit = full_after != u64::MAX && path != 1;
                if !short_circuit && v != items {
                    r.violate("C17.transparency", format!("rayon path {path}: items reaching the consumer {v:?} differ from the source {items:?}"));
                }
                let p = pb.position();
                // items actually transferred: all of them, or (short-circuiting consumer) the
                // ones that reached the user's consumer
                let n = if short_circuit { seen.load(std::sync::atomic::Ordering::SeqCst) as usize } else { n };
                if short_circuit {
                    r.probe("rayon_short_circuit");
                }
                if p != n as u64 {
                    r.violate(
                        "C17.rayon_position",
                        format!(
                            "rayon path {} with {} items split into {} leaves: position() = {p} after completion, items transferred = {n} (len={:?}, on_finish={})",
                            ["drive", "with_producer", "drive_unindexed"][path as usize % 3],
                            n,
                            drv.leaves.lock().unwrap(),
                            pb.length(),
                            FINISH_NAMES[(sc.c("on_finish") % 5) as usize]
                        ),
                    );
                }
            }
        }
        if let Some(b) = drv.bad.lock().unwrap().clone() {
            r.violate("C17.rayon_position", format!("rayon path {path}: {b}"));
        }
        r.probe_n("rayon_leaves", *drv.leaves.lock().unwrap());
        r.probe_n("rayon_splits", *drv.splits.lock().unwrap());
        r.probe_n("rayon_degenerate_splits", *drv.degenerate_splits.lock().unwrap());
        r.probe(["rayon_path_drive", "rayon_path_with_producer", "rayon_path_drive_unindexed"][path as usize % 3]);
        r.nontrivial = *drv.splits.lock().unwrap() >= 1;
        r
    });
    finish_report(res, out)
}

/// Auxiliary smoke run on the REAL rayon pool (shims in passthrough mode: the worker threads are
/// not simulated). Only schedule-independent facts are checked (result, final position), so it
/// cannot alarm spuriously; it does not replay exactly and is labelled so in the evidence.
fn exec_rayon_real(sc: &Scenario) -> Report {
    use rayon::prelude::*;
    let mut r = Report::default();
    let n = sc.c("n_items") as usize;
    let threads = sc.c("pool_threads").clamp(1, 8) as usize;
    let pool = match rayon::ThreadPoolBuilder::new().num_threads(threads).build() {
        Ok(p) => p,
        Err(e) => {
            r.harness_error = Some(format!("cannot build a rayon pool: {e}"));
            return r;
        }
    };
    let items: Vec<u64> = (0..n as u64).collect();
    let pb = ProgressBar::with_draw_target(Some(n as u64), ProgressDrawTarget::hidden()).with_finish(finish_kind(sc.c("on_finish"), "fin"));
    let path = sc.c("path") % 4;
    let expect_sum: u64 = items.iter().sum();
    let res = call(|| {
        pool.install(|| match path {
            0 => items.par_iter().progress_with(pb.clone()).map(|x| *x).sum::<u64>(),
            1 => items.par_iter().progress_with(pb.clone()).enumerate().map(|(_, x)| *x).sum::<u64>(),
            2 => items.par_iter().progress_with(pb.clone()).filter(|x| **x != u64::MAX).map(|x| *x).sum::<u64>(),
            _ => items.par_iter().progress_with(pb.clone()).zip(items.par_iter()).map(|(a, _)| *a).sum::<u64>(),
        })
    });
    match res {
        Err(p) => r.violate("C17.no_panic", format!("real rayon path {path} panicked: {p}")),
        Ok(sum) => {
            if sum != expect_sum {
                r.violate("C17.transparency", format!("real rayon path {path}: sum of the items {sum}, expected {expect_sum}"));
            }
            let p = pb.position();
            if p != n as u64 {
                r.violate(
                    "C17.rayon_position",
                    format!("real rayon pool ({threads} threads), path {}: position() = {p} after completion, items transferred = {n}", ["map", "enumerate (producer)", "filter (unindexed)", "zip (producer)"][path as usize]),
                );
            }
        }
    }
    r.probe("rayon_real_pool_runs");
    r.nontrivial = n >= 2;
    r.sub_runs = 1;
    r
}

impl Check for C17 {
    fn id(&self) -> &'static str {
        "C17"
    }
    fn rule_text(&self) -> String {
        "modes io (Read/read_vectored/read_exact/read_to_string/read_to_end/BufRead fill_buf+consume/Write/write_vectored/flush/Seek/stream_position, and the provided methods write_all/read_until/bytes()/io::copy/rewind/seek_relative; wrapper built by wrap_read or wrap_write), aio (tokio poll_read/poll_fill_buf/consume/poll_write/poll_write_vectored (three slices, the first one empty in a third of the calls; one sink in three only implements the scalar write and says so) + is_write_vectored/poll_flush/poll_shutdown/AsyncSeek, hand polled), stream (poll_next, size_hint), iter (next/next_back/len/size_hint and the provided methods nth/nth_back/take().count()/rev()/last/fold/find; built by progress_with or wrap_iter; exhaustion and cancellation), rayon (drive, with_producer, drive_unindexed through a seeded split driver, leaves on simulated threads). 1..40 PRNG calls per run against a simulated source/sink whose every call draws full/short/EINTR/EAGAIN/EIO/Pending/EOF from its own PRNG; the unwrapped twin gets the same plan and call sequence; results, buffers, error kinds and Poll states must be equal call by call and position() must equal the bytes/items actually transferred (seek: new offset; read_exact/read_to_string errors: anywhere up to the bytes the source delivered). Non-trivial: io/aio = >= 2 calls and at least one injected short transfer/error/Pending/EOF; iter/stream = >= 2 calls; rayon = at least one split. Distinct = distinct scenario hash.".into()
    }
    fn assumptions(&self) -> Vec<String> {
        vec![
            "the rayon thread pool is replaced by a seeded split driver calling the real Producer/Consumer/Folder/UnindexedConsumer wrappers; leaves fold their whole iterator like rayon's bridge does; in addition about 1 run in 150 (mode rayon_real) uses the REAL rayon pool with the shims in passthrough mode and checks only schedule-independent facts (result, final position) - those runs do not replay exactly and cannot alarm spuriously".into(),
            "futures are polled by hand with a counting waker (no tokio runtime)".into(),
            "Iterator::size_hint forwarding and position tracking of tokio AsyncSeek are not demanded (not stated)".into(),
        ]
    }
    fn budget(&self, tier: Tier) -> Budget {
        match tier {
            Tier::Quick => Budget { runs: 200_000, wall_s: 90 },
            Tier::Thorough => Budget { runs: 2_000_000, wall_s: 600 },
        }
    }
    fn corpus(&self) -> Vec<Scenario> {
        let mut v = vec![];
        // the AsyncBufRead story: read a line (fill_buf, partial consume), twice
        let mut s = Scenario::new("C17", "aio", 11);
        s.set("data_len", 16);
        s.set("len_known", 1);
        s.set("len0", 16);
        s.threads = vec![vec![
            Op::new("poll_fill_buf"),
            Op::new("aconsume").n(6),
            Op::new("poll_fill_buf"),
            Op::new("aconsume").n(3),
        ]];
        v.push(s);
        // rayon with_producer, 3 leaves, default finish (AndClear), known length
        let mut s = Scenario::new("C17", "rayon", 12);
        s.set("n_items", 8);
        s.set("len_known", 1);
        s.set("len0", 8);
        s.set("on_finish", 2);
        s.set("path", 1);
        s.set("max_depth", 2);
        s.set("use_threads", 1);
        v.push(s);
        v
    }
    fn gen(&self, rng: &mut Rng, tier: Tier, _index: u64) -> Scenario {
        if rng.chance(1, 150) {
            let mut sc = Scenario::new("C17", "rayon_real", rng.next_u64());
            sc.set("n_items", *rng.pick(&[0, 1, 2, 7, 100, 1000, 5000]));
            sc.set("pool_threads", rng.range(1, 8));
            sc.set("path", rng.below(4));
            sc.set("on_finish", rng.below(5));
            sc.threads = vec![vec![]];
            return sc;
        }
        let mode = ["io", "aio", "stream", "iter", "rayon"][rng.weighted(&[6, 5, 2, 3, 4])];
        let mut sc = Scenario::new("C17", mode, rng.next_u64());
        sc.set("visible", rng.chance(1, 5) as u64);
        sc.set("ctor", rng.below(2));
        sc.set("on_finish", rng.below(5));
        sc.set("len_known", rng.chance(4, 5) as u64);
        let nmax = if tier == Tier::Quick { 25 } else { 40 };
        let n = rng.range(1, nmax);
        match mode {
            "io" => {
                sc.set("data_len", *rng.pick(&[0, 1, 7, 40, 200]));
                sc.set("len0", sc.c("data_len"));
                sc.set("p_err", *rng.pick(&[0, 50, 150, 400]));
                sc.set("p_short", *rng.pick(&[0, 200, 600]));
                sc.set("scalar_sink", rng.chance(1, 3) as u64);
                let mut ops = vec![];
                for _ in 0..n {
                    let cap = *rng.pick(&[0u64, 1, 2, 3, 8, 17, 64]);
                    ops.push(match rng.weighted(&[10, 4, 4, 2, 8, 8, 6, 3, 2, 5, 2, 1, 2, 2, 2, 2, 1, 1, 1]) {
                        12 => Op::new("read_to_end").n(rng.below(6)),
                        13 => Op::new("write_all").n(cap),
                        14 => Op::new("read_until").n(rng.below(26)),
                        15 => Op::new("bytes_next"),
                        16 => Op::new("io_copy"),
                        17 => Op::new("rewind"),
                        18 => Op::new("seek_relative").n(rng.below(50)),
                        0 => Op::new("read").n(cap),
                        1 => Op::new("read_vectored").n(cap).n(rng.below(5)).n(rng.below(9)),
                        2 => Op::new("read_exact").n(cap),
                        3 => Op::new("read_to_string").n(rng.below(6)),
                        4 => Op::new("fill_buf"),
                        5 => Op::new("consume").n(rng.below(20)),
                        6 => Op::new("write").n(cap),
                        7 => Op::new("write_vectored").n(cap).n(rng.below(6)),
                        8 => Op::new("flush"),
                        9 => Op::new("seek").n(rng.below(3)).n(rng.below(80)),
                        10 => Op::new("stream_position"),
                        _ => Op::new("advance").n(*rng.pick(&[1_000, 2_000_000])),
                    });
                }
                sc.threads = vec![ops];
            }
            "aio" => {
                sc.set("data_len", *rng.pick(&[0, 1, 16, 100]));
                sc.set("len0", sc.c("data_len"));
                sc.set("p_err", *rng.pick(&[0, 50, 200]));
                sc.set("p_short", *rng.pick(&[0, 300, 700]));
                sc.set("scalar_sink", rng.chance(1, 3) as u64);
                sc.set("p_pending", *rng.pick(&[0, 200, 500]));
                let mut ops = vec![];
                for _ in 0..n {
                    let cap = *rng.pick(&[0u64, 1, 2, 5, 16, 33]);
                    ops.push(match rng.weighted(&[8, 8, 8, 6, 2, 1, 2, 1, 3]) {
                        8 => Op::new("poll_write_vectored").n(cap).n(rng.below(7)),
                        0 => Op::new("poll_read").n(cap).n(rng.below(4)),
                        1 => Op::new("poll_fill_buf"),
                        2 => Op::new("aconsume").n(rng.below(20)),
                        3 => Op::new("poll_write").n(cap),
                        4 => Op::new("poll_flush"),
                        5 => Op::new("poll_shutdown"),
                        6 => Op::new("aseek").n(rng.below(50)),
                        _ => Op::new("advance").n(*rng.pick(&[1_000, 2_000_000])),
                    });
                }
                sc.threads = vec![ops];
            }
            "stream" | "iter" => {
                let items = rng.range(0, 12);
                sc.set("n_items", items);
                sc.set("len0", *rng.pick(&[items, items + 5, 0, items / 2]));
                sc.set("p_pending", *rng.pick(&[0, 300]));
                if mode == "iter" && rng.chance(1, 3) {
                    sc.set("consume_by_value", rng.range(1, 5));
                }
                if rng.chance(1, 6) {
                    sc.set("pre_finished", 1);
                } else if rng.chance(1, 6) {
                    sc.set("inner_finishes", 1);
                }
                let mut ops = vec![];
                for _ in 0..rng.range(1, items + 4) {
                    ops.push(if mode == "stream" {
                        if rng.chance(1, 8) { Op::new("advance").n(1_500_000) } else { Op::new("poll_next") }
                    } else {
                        match rng.weighted(&[8, 4, 2, 1, 1, 1, 1, 1, 1, 1, 1]) {
                            0 => Op::new("next"),
                            1 => Op::new("next_back"),
                            2 => Op::new("len"),
                            4 => Op::new("nth").n(rng.below(4)),
                            5 => Op::new("nth_back").n(rng.below(4)),
                            6 => Op::new("take_count").n(rng.below(5)),
                            7 => Op::new("rev_next"),
                            8 => Op::new(if rng.chance(1, 2) { "last" } else { "sum_rest" }),
                            9 => Op::new("find").n(rng.below(5)),
                            _ => Op::new("advance").n(1_500_000),
                        }
                    });
                }
                sc.threads = vec![ops];
            }
            _ => {
                let items = rng.range(0, if tier == Tier::Quick { 12 } else { 24 });
                sc.set("n_items", items);
                // (the declared length may be wrong either way: the position counts the items)
                sc.set("len0", *rng.pick(&[items, items, items + 3, items / 2, 1, 0]));
                sc.set("path", rng.below(3));
                sc.set("max_depth", rng.range(0, 3));
                sc.set("leaf_iter_mode", rng.below(3));
                sc.set("full_after", if rng.chance(1, 4) { rng.range(1, items + 1) } else { 0 });
                sc.set("use_threads", rng.chance(3, 4) as u64);
                gen_sched_cfg(&mut sc, rng, 300);
                sc.set("spurious_pm", 0);
                sc.threads = vec![vec![]];
            }
        }
        sc
    }
    fn exec(&self, sc: &Scenario) -> Report {
        match sc.mode.as_str() {
            "io" => exec_io(sc),
            "aio" => exec_aio(sc),
            "stream" | "iter" => exec_iter(sc),
            "rayon_real" => exec_rayon_real(sc),
            _ => exec_rayon(sc),
        }
    }
    fn shrink_cfg(&self) -> Vec<(&'static str, u64)> {
        vec![
            ("visible", 0),
            ("p_err", 0),
            ("p_short", 0),
            ("p_pending", 0),
            ("max_depth", 0),
            ("leaf_iter_mode", 0),
            ("full_after", 0),
            ("n_items", 0),
            ("consume_by_value", 0),
            ("pre_finished", 0),
            ("inner_finishes", 0),
            ("use_threads", 0),
            ("data_len", 0),
            ("now_jitter_ns", 0),
        ]
    }
    fn known(&self, _rule: &str, _sc: &Scenario, _detail: &str) -> Option<&'static str> {
        None
    }
}
