//! C09 — rate and ETA estimator laws, on the virtual clock.
//!
//! laws:   arbitrary (gap, position) histories with reset/rewind events; finite/non-negative,
//!         bounded by the largest sample rate, monotone decay while stalled, eta/duration relations.
//! steady: all updates on one line p = p0 + r (t - t0) with irregular cadence => rate == r.
//! twins:  two bars with different pre-histories, synchronised, reset, same post-history =>
//!         identical reports (forgetfulness).

use std::time::Duration;

use indicatif::{ProgressBar, ProgressDrawTarget};
use verif_simrt::rng::Rng;
use verif_simrt::{sched, Config, World};

use crate::c07::finish_report;
use crate::common::*;
use crate::engine::{Budget, Check, Tier};
use crate::scenario::{Op, Report, Scenario};

pub struct C09;

/// Reference double exponentially weighted average (15 s / 90 %), used ONLY to classify a
/// violation of the monotone-decay law as the known finding (inherent to double smoothing).
#[derive(Clone, Debug)]
struct RefEst {
    s: f64,
    d: f64,
    prev_steps: u64,
    /// times in integral nanoseconds (differences are exact)
    prev_t: u64,
    start_t: u64,
}
fn wgt(age: f64) -> f64 {
    0.1f64.powf(age / 15.0)
}
fn dsecs(later: u64, earlier: u64) -> f64 {
    let d = Duration::from_nanos(later.saturating_sub(earlier));
    d.as_secs() as f64 + f64::from(d.subsec_nanos()) / 1e9
}
impl RefEst {
    fn new(t: u64) -> Self {
        RefEst { s: 0.0, d: 0.0, prev_steps: 0, prev_t: t, start_t: t }
    }
    fn reset(&mut self, t: u64) {
        self.s = 0.0;
        self.d = 0.0;
        self.prev_t = t;
        self.start_t = t;
    }
    fn record(&mut self, steps: u64, t: u64) -> Option<f64> {
        if steps <= self.prev_steps || t <= self.prev_t {
            if steps < self.prev_steps {
                self.prev_steps = steps;
                self.reset(t);
            }
            return None;
        }
        let dt = dsecs(t, self.prev_t);
        let rate = (steps - self.prev_steps) as f64 / dt;
        let w = wgt(dt);
        self.s = self.s * w + rate * (1.0 - w);
        let tw = 1.0 - wgt(dsecs(t, self.start_t));
        self.d = self.d * w + (self.s / tw) * (1.0 - w);
        self.prev_steps = steps;
        self.prev_t = t;
        Some(rate)
    }
    fn rate(&self, t: u64) -> f64 {
        let rw = wgt(dsecs(t, self.prev_t));
        let tw = 1.0 - wgt(dsecs(t, self.start_t));
        let sps = self.s * rw / tw;
        (self.d * rw + sps * (1.0 - rw)) / tw
    }
}


fn check_finite(r: &mut Report, pb: &ProgressBar, at: &str) -> Option<(f64, Duration, Duration, Duration)> {
    let got = call(|| (pb.per_sec(), pb.eta(), pb.duration(), pb.elapsed()));
    match got {
        Err(p) => {
            r.violate("C09.no_panic", format!("{at}: per_sec/eta/duration panicked: {p}"));
            None
        }
        Ok((ps, eta, dur, el)) => {
            if !ps.is_finite() || ps < 0.0 {
                r.violate("C09.finite_nonnegative", format!("{at}: per_sec() = {ps}"));
                return None;
            }
            Some((ps, eta, dur, el))
        }
    }
}

fn exec_laws(sc: &Scenario) -> Report {
    let sc2 = sc.clone();
    let (res, out) = World::run(Config::sequential(sc.seed), move || {
        let sc = sc2;
        let mut r = Report::default();
        let len = if sc.c("len_known") == 1 { Some(sc.c("len0")) } else { None };
        let pb = ProgressBar::with_draw_target(len, ProgressDrawTarget::hidden());
        // (a bar that claims to have been running for a while already: only elapsed() moves)
        let pb = if sc.c("with_elapsed_ns") > 0 { pb.with_elapsed(Duration::from_nanos(sc.c("with_elapsed_ns"))) } else { pb };
        let now = || sched::clock_ns();
        let mut reference = RefEst::new(now());
        let mut max_rate: f64 = 0.0;
        // largest sample rate since creation, valid while nothing made the bar forget (no reset of
        // the elapsed time, no rewind): bounds the average rate a finished bar reports
        let mut max_rate_ever: f64 = 0.0;
        let mut never_forgot = true;
        let mut abandoned = false;
        let mut finished = false;
        let mut pos: u64 = 0;
        let mut cur_len = len;
        let mut last_reset_ns = sched::clock_ns();
        // stall tracking: successive queries without an intervening sample
        let mut stall_prev: Option<(f64, f64)> = None; // (per_sec, reference rate)
        let ops = sc.threads.first().cloned().unwrap_or_default();
        for (i, op) in ops.iter().enumerate() {
            let at = format!("op#{i} {}", op.short());
            match op.k.as_str() {
                "gap" => {
                    if op.n1() == 1 {
                        let _ = call(|| pb.suspend(|| sched::advance_quiet(op.n0())));
                        r.probe("gaps_inside_suspend");
                    } else {
                        sched::advance_quiet(op.n0());
                    }
                    continue;
                }
                "update" => {
                    let p = op.n0();
                    pos = p;
                    if let Err(e) = call(|| {
                        pb.set_position(p);
                        pb.tick();
                    }) {
                        r.violate("C09.no_panic", format!("{at} panicked: {e}"));
                        break;
                    }
                    if finished {
                        // a finished bar that is moved again: no samples stand behind its position
                        never_forgot = false;
                    }
                    if !finished {
                        let before_start = reference.start_t;
                        if let Some(rate) = reference.record(p, now()) {
                            max_rate = max_rate.max(rate);
                            max_rate_ever = max_rate_ever.max(rate);
                            stall_prev = None;
                            r.probe("samples_recorded");
                        }
                        if reference.start_t != before_start {
                            never_forgot = false;
                            max_rate = 0.0;
                            last_reset_ns = sched::clock_ns();
                            stall_prev = None;
                            r.probe("rewind_reset");
                        }
                    }
                }
                "reset_eta" | "reset_elapsed" | "reset" => {
                    let rr = match op.k.as_str() {
                        "reset_eta" => call(|| pb.reset_eta()),
                        "reset_elapsed" => call(|| pb.reset_elapsed()),
                        _ => call(|| pb.reset()),
                    };
                    if let Err(e) = rr {
                        r.violate("C09.no_panic", format!("{at} panicked: {e}"));
                        break;
                    }
                    reference.reset(now());
                    max_rate = 0.0;
                    if op.k != "reset_eta" {
                        never_forgot = false;
                    }
                    last_reset_ns = sched::clock_ns();
                    stall_prev = None;
                    if op.k == "reset" {
                        pos = 0;
                        finished = false;
                    }
                    // nothing done before the reset counts as progress made after it
                    reference.prev_steps = pos;
                }
                "set_length" => {
                    cur_len = Some(op.n0());
                    let _ = call(|| pb.set_length(op.n0()));
                    // like every redraw request, set_length feeds the current position to the estimator
                    if !finished {
                        let before_start = reference.start_t;
                        if let Some(rate) = reference.record(pos, now()) {
                            max_rate = max_rate.max(rate);
                            max_rate_ever = max_rate_ever.max(rate);
                            stall_prev = None;
                        }
                        if reference.start_t != before_start {
                            never_forgot = false;
                            max_rate = 0.0;
                            last_reset_ns = sched::clock_ns();
                            stall_prev = None;
                        }
                    }
                }
                "finish" => {
                    if !finished {
                        abandoned = op.n0() % 5 > 2;
                        if reference.prev_steps != pos {
                            // progress made at the very instant of the previous sample is not
                            // covered by any sample rate yet
                            never_forgot = false;
                        }
                    }
                    finished = true;
                    if op.n0() % 5 <= 2 {
                        if let Some(l) = cur_len {
                            pos = l;
                        }
                    }
                    let _ = call(|| apply_finish(&pb, op.n0(), ""));
                }
                "query" => {}
                _ => {}
            }
            // queries only at instants strictly after creation / the last reset
            if sched::clock_ns() <= last_reset_ns || op.k == "gap" {
                continue;
            }
            let (ps, eta, dur, el) = match check_finite(&mut r, &pb, &at) {
                Some(x) => x,
                None => break,
            };
            if finished {
                // after finishing: eta is zero, and duration is elapsed plus eta like everywhere
                if eta != Duration::ZERO {
                    r.violate("C09.eta_relation", format!("{at}: finished bar reports eta {eta:?}"));
                    break;
                }
                if dur != el {
                    r.violate("C09.duration_relation", format!("{at}: finished bar: duration() = {dur:?} but elapsed {el:?} + eta {eta:?} = {el:?}"));
                    break;
                }
                // an abandoned bar did exactly the steps its samples showed: whatever rate it
                // reports now cannot exceed the largest rate ever observed
                if abandoned && never_forgot && ps > max_rate_ever * (1.0 + 1e-9) + 1e-300 {
                    r.violate(
                        "C09.bounded",
                        format!("{at}: abandoned at position {pos}: per_sec() = {ps} exceeds the largest rate of any sample since creation ({max_rate_ever})"),
                    );
                    break;
                }
                r.probe("finished_bar_queries");
                continue;
            }
            // (3) bounded by the largest sample rate since the last reset
            if ps > max_rate * (1.0 + 1e-9) + 1e-300 {
                r.violate(
                    "C09.bounded",
                    format!("{at}: per_sec() = {ps} exceeds the largest rate of any sample since the last reset ({max_rate})"),
                );
                break;
            }
            // (4) monotone decay while stalled
            if op.k == "query" {
                let rf = reference.rate(now());
                if let Some((prev_ps, prev_rf)) = stall_prev {
                    if ps > prev_ps * (1.0 + 1e-12) + 1e-300 {
                        let classified = if rf > prev_rf * (1.0 + 1e-13) { "reference double-EWA rises too" } else { "reference double-EWA does not rise" };
                        r.violate(
                            "C09.monotone_decay",
                            format!("{at}: while progress stalls per_sec() rose from {prev_ps} to {ps} [{classified}]"),
                        );
                        break;
                    }
                }
                stall_prev = Some((ps, rf));
                r.probe("stall_queries");
            }
            // (6) relations at this frozen instant
            match cur_len {
                None => {
                    if eta != Duration::ZERO {
                        r.violate("C09.eta_relation", format!("{at}: unknown length but eta {eta:?}"));
                        break;
                    }
                    if dur != el {
                        r.violate("C09.duration_relation", format!("{at}: unknown length: duration() = {dur:?} but elapsed {el:?} + eta {eta:?} = {el:?}"));
                        break;
                    }
                }
                Some(l) => {
                    let remaining = l.saturating_sub(pos) as f64;
                    let want = if ps == 0.0 { 0.0 } else { remaining / ps };
                    let got = eta.as_secs_f64();
                    let ok = if want >= 1.8e19 { got >= 1.8e19 } else { (got - want).abs() <= 2e-9 + want * 1e-9 };
                    if !ok {
                        r.violate(
                            "C09.eta_relation",
                            format!("{at}: eta() = {got} s but remaining {remaining} / per_sec {ps} = {want} s"),
                        );
                        break;
                    }
                    let want_d = el.saturating_add(eta);
                    if dur != want_d {
                        r.violate("C09.duration_relation", format!("{at}: duration() = {dur:?} but elapsed {el:?} + eta {eta:?} = {want_d:?}"));
                        break;
                    }
                }
            }
        }
        r.nontrivial = r.probes.get("samples_recorded").copied().unwrap_or(0) >= 2;
        r
    });
    finish_report(res, out)
}

/// A seekable "stream" that is nothing but an offset (its length is set from outside)
struct FakeSeek {
    pos: u64,
    len: std::rc::Rc<std::cell::Cell<u64>>,
}
impl std::io::Read for FakeSeek {
    fn read(&mut self, _buf: &mut [u8]) -> std::io::Result<usize> {
        Ok(0)
    }
}
impl std::io::Seek for FakeSeek {
    fn seek(&mut self, f: std::io::SeekFrom) -> std::io::Result<u64> {
        self.pos = match f {
            std::io::SeekFrom::Start(p) => p,
            std::io::SeekFrom::Current(d) => self.pos.wrapping_add(d as u64),
            std::io::SeekFrom::End(d) => self.len.get().wrapping_add(d as u64),
        };
        Ok(self.pos)
    }
}

fn exec_steady(sc: &Scenario) -> Report {
    let sc2 = sc.clone();
    let (res, out) = World::run(Config::sequential(sc.seed), move || {
        let sc = sc2;
        let mut r = Report::default();
        let pb = ProgressBar::with_draw_target(Some(u64::MAX), ProgressDrawTarget::hidden());
        let pb = if sc.c("with_elapsed_ns") > 0 { pb.with_elapsed(Duration::from_nanos(sc.c("with_elapsed_ns"))) } else { pb };
        // rate: k steps per millisecond (k >= 1), or one step per m milliseconds
        let k = sc.c("steps_per_ms");
        let m = sc.c("ms_per_step").max(1);
        let t0 = sched::clock_ns();
        let mut base_pos = 0u64;
        let mut base_ns = t0;
        // optionally the steady progress starts far away from zero (positions above 2^53 are not
        // exact in f64): jump there, then forget the jump
        let pb = if sc.c("base_pos") > 0 && sc.c("base_builder") == 1 {
            // the bar is created at that position (resuming a download, say): not progress
            base_pos = sc.c("base_pos");
            pb.with_position(base_pos)
        } else if sc.c("base_pos") > 0 && sc.c("base_builder") == 2 {
            // ... or positioned through the builder of an adaptor wrapped around it
            use indicatif::ProgressIterator;
            base_pos = sc.c("base_pos");
            let it = (0..0u8).progress_with(pb.clone()).with_position(base_pos);
            drop(it);
            pb
        } else {
            pb
        };
        // how a position reaches the bar: 0 set_position + tick, 1 update(closure), 2 inc + tick,
        // 3 a seek through the io adaptor (Start / Current / End in turn) + tick
        let via = sc.c("via_update");
        let seek_len = std::rc::Rc::new(std::cell::Cell::new(0u64));
        let mut seeker = pb.wrap_read(FakeSeek { pos: 0, len: seek_len.clone() });
        let near_len = sc.c("near_len") == 1;
        if sc.c("base_pos") > 0 && sc.c("base_builder") == 0 {
            sched::advance_quiet(1_000_000);
            let bp = sc.c("base_pos");
            let _ = call(|| {
                pb.set_position(bp);
                pb.tick();
            });
            sched::advance_quiet(1_000_000);
            let _ = call(|| pb.reset_eta());
            base_pos = bp;
            base_ns = sched::clock_ns();
        }
        // the time unit of the cadence: milliseconds, or microseconds (updates closer together
        // than the 1 ms interval of the position rate limiter)
        let unit = if sc.c("unit_ns") > 0 { sc.c("unit_ns") } else { 1_000_000 };
        let per_s = 1e9 / unit as f64;
        let rate = if k > 0 { k as f64 * per_s } else { per_s / m as f64 };
        let eps = 1e-7;
        let mut worst: f64 = 0.0;
        let ops = sc.threads.first().cloned().unwrap_or_default();
        for (i, op) in ops.iter().enumerate() {
            let at = format!("op#{i} {}", op.short());
            match op.k.as_str() {
                "gap_ms" => {
                    // whole milliseconds (a multiple of m when the rate is one step per m ms)
                    // (at most ~10 days per gap: the virtual clock is 64 bit nanoseconds)
                    let ms = if k > 0 { op.n0().max(1) } else { (op.n0().max(1) % (864_000_000 / m).max(1)).max(1) * m };
                    if op.n1() == 1 {
                        // the time passes inside the closure of suspend(): it is time all the same
                        if let Err(e) = call(|| pb.suspend(|| sched::advance_quiet(ms * unit))) {
                            r.violate("C09.no_panic", format!("{at}: suspend panicked: {e}"));
                            break;
                        }
                        r.probe("gaps_inside_suspend");
                    } else {
                        sched::advance_quiet(ms * unit);
                    }
                    let el_ms = (sched::clock_ns() - base_ns) / unit;
                    let p = base_pos + if k > 0 { el_ms * k } else { el_ms / m };
                    // optionally the end is always near: the length stays a few hundred steps
                    // ahead of the position (far above 2^53 the two are not exact in f64; what
                    // remains is, as an integer)
                    let slack = 1 + (i as u64 * 37 + sc.seed % 1000) % 3000;
                    if near_len {
                        let _ = call(|| pb.set_length(p.saturating_add(slack)));
                    }
                    if let Err(e) = call(|| match via {
                        // the closure API stores the position; update() ticks
                        1 => pb.update(|s| s.set_pos(p)),
                        2 => {
                            pb.inc(p.wrapping_sub(pb.position()));
                            pb.tick();
                        }
                        3 => {
                            use std::io::Seek;
                            let cur = pb.position();
                            let d = p.wrapping_sub(cur);
                            let how = match i % 3 {
                                1 if d <= i64::MAX as u64 => std::io::SeekFrom::Current(d as i64),
                                2 => {
                                    // the stream ends a few bytes behind the target
                                    let back = (i as u64 * 7) % 1000;
                                    seek_len.set(p.saturating_add(back));
                                    std::io::SeekFrom::End(-((seek_len.get() - p) as i64))
                                }
                                _ => std::io::SeekFrom::Start(p),
                            };
                            let got = seeker.seek(how).unwrap();
                            assert_eq!(got, p, "harness: FakeSeek landed elsewhere");
                            pb.tick();
                        }
                        _ => {
                            pb.set_position(p);
                            pb.tick();
                        }
                    }) {
                        r.violate("C09.no_panic", format!("{at} panicked: {e}"));
                        break;
                    }
                    let ps = match call(|| pb.per_sec()) {
                        Ok(x) => x,
                        Err(e) => {
                            r.violate("C09.no_panic", format!("{at}: per_sec panicked: {e}"));
                            break;
                        }
                    };
                    let rel = ((ps - rate) / rate).abs();
                    if std::env::var_os("VERIF_TRACE").is_some() {
                        eprintln!("{at}: t={} ms pos={p} per_sec={ps:e} rel={rel:e}", (sched::clock_ns() - t0) / 1_000_000);
                    }
                    worst = worst.max(rel);
                    if !(rel <= eps) {
                        r.violate(
                            "C09.steady_rate",
                            format!("{at}: progress is exactly {rate} steps/s since the last reset but per_sec() = {ps} (relative error {rel:e})"),
                        );
                        break;
                    }
                    r.probe("steady_updates");
                    if near_len && p < u64::MAX - slack {
                        // eta == remaining / rate at this instant
                        let eta = match call(|| pb.eta()) {
                            Ok(x) => x.as_secs_f64(),
                            Err(e) => {
                                r.violate("C09.no_panic", format!("{at}: eta panicked: {e}"));
                                break;
                            }
                        };
                        let want = slack as f64 / ps;
                        if !((eta - want).abs() <= 2e-9 + want * 1e-9) {
                            r.violate(
                                "C09.eta_relation",
                                format!("{at}: position {p}, length {}, {slack} steps remain at {ps} steps/s: eta() = {eta} s, expected {want} s", p + slack),
                            );
                            break;
                        }
                        r.probe("near_len_eta_checks");
                    }
                }
                "reset_eta" => {
                    let _ = call(|| pb.reset_eta());
                    base_pos = pb.position();
                    base_ns = sched::clock_ns();
                }
                _ => {}
            }
        }
        // worst relative error in units of 1e-15, for calibrating eps
        r.probe_n("steady_worst_rel_err_e15_max", 0);
        let w = (worst.min(1.0) * 1e15) as u64;
        let e = r.probes.entry("steady_worst_rel_err_e15_sum".into()).or_insert(0);
        *e = e.saturating_add(w);
        r.nontrivial = r.probes.get("steady_updates").copied().unwrap_or(0) >= 2;
        r
    });
    finish_report(res, out)
}

/// steady progress on a bar whose estimator is only fed by a steady ticker (with a ticker
/// installed the position calls do not tick): hidden or not, the reported rate is the true one
/// up to the sampling of the ticker
fn exec_ticked(sc: &Scenario) -> Report {
    let sc2 = sc.clone();
    let (res, out) = World::run(Config::sequential(sc.seed), move || {
        let sc = sc2;
        let mut r = Report::default();
        let term = crate::simterm::SimTerm::new(40, 5);
        let target = if sc.c("visible") == 1 {
            ProgressDrawTarget::term_like(Box::new(term.clone()))
        } else {
            ProgressDrawTarget::hidden()
        };
        let pb = ProgressBar::with_draw_target(Some(1_000_000_000), target);
        let tick_ns = sc.c("tick_ms").max(1) * 1_000_000;
        let step_ns = sc.c("step_ms").max(1) * 1_000_000;
        let per_step = sc.c("per_step").max(1);
        let rate = per_step as f64 * 1e9 / step_ns as f64;
        if let Err(p) = call(|| pb.enable_steady_tick(Duration::from_nanos(tick_ns))) {
            r.violate("C09.no_panic", format!("enable_steady_tick panicked: {p}"));
            return r;
        }
        let n = sc.c("steps").max(10);
        let mut pos = 0u64;
        for i in 0..n {
            sched::sleep(step_ns);
            pos += per_step;
            if let Err(p) = call(|| pb.set_position(pos)) {
                r.violate("C09.no_panic", format!("step {i}: set_position panicked: {p}"));
                break;
            }
            // once the ticker has sampled the progress for a while (>= 20 ticks and >= 20 steps)
            if (i + 1) * step_ns >= 20 * tick_ns && i >= 20 {
                let ps = pb.per_sec();
                if !(ps.is_finite() && ps >= 0.5 * rate && ps <= 1.5 * rate) {
                    r.violate(
                        "C09.steady_rate",
                        format!(
                            "step {i}: {per_step} steps every {} ms for {} ms under a {} ms steady ticker ({}): true rate {rate}/s, per_sec() = {ps}",
                            step_ns / 1_000_000,
                            (i + 1) * step_ns / 1_000_000,
                            tick_ns / 1_000_000,
                            if sc.c("visible") == 1 { "visible" } else { "hidden" }
                        ),
                    );
                    break;
                }
                r.probe("ticked_rate_checks");
            }
        }
        let _ = call(|| pb.disable_steady_tick());
        r.nontrivial = true;
        drop(pb);
        r
    });
    finish_report(res, out)
}

/// blocked: a reset call has to wait for the bar (another thread holds it inside `suspend()` for a
/// while); what counts as "before the reset" ends when the reset takes effect, so steady progress
/// afterwards is reported with its true rate
fn exec_blocked(sc: &Scenario) -> Report {
    let sc2 = sc.clone();
    let (res, out) = World::run(Config::sequential(sc.seed), move || {
        let sc = sc2;
        let mut r = Report::default();
        let pb = ProgressBar::with_draw_target(Some(u64::MAX), ProgressDrawTarget::hidden());
        // some history at another rate
        sched::advance_quiet(1_000_000_000);
        pb.set_position(sc.c("pre_pos"));
        pb.tick();
        sched::advance_quiet(500_000_000);
        pb.set_position(sc.c("pre_pos") * 2);
        pb.tick();
        let hold = sc.c("hold_ns").max(2_000_000);
        let pb2 = pb.clone();
        let holder = verif_simrt::thread::spawn_named("holder", move || {
            pb2.suspend(|| sched::sleep(hold));
        });
        // (the holder is inside suspend() by now: this thread slept, so the other one ran)
        sched::sleep(hold / 2);
        let kind = sc.c("reset_kind") % 3;
        let rr = call(|| match kind {
            0 => pb.reset_eta(),
            1 => pb.reset(),
            _ => pb.reset_elapsed(),
        });
        if let Err(p) = rr {
            r.violate("C09.no_panic", format!("the reset call panicked: {p}"));
            return r;
        }
        let _ = holder.join();
        if sched::clock_ns() < 1_000_000_000_000_000_000 + 1_500_000_000 + hold {
            r.harness_error = Some("the reset call did not wait for the holder".into());
            return r;
        }
        let k = sc.c("steps_per_ms").max(1);
        let rate = k as f64 * 1000.0;
        let p0 = pb.position();
        let mut el_ms = 0u64;
        let ops = sc.threads.first().cloned().unwrap_or_default();
        for (i, op) in ops.iter().enumerate() {
            let ms = op.n0().max(1);
            sched::advance_quiet(ms * 1_000_000);
            el_ms += ms;
            let p = p0 + el_ms * k;
            if let Err(e) = call(|| {
                pb.set_position(p);
                pb.tick();
            }) {
                r.violate("C09.no_panic", format!("op#{i} panicked: {e}"));
                break;
            }
            let ps = pb.per_sec();
            let rel = ((ps - rate) / rate).abs();
            if !(rel <= 1e-7) {
                r.violate(
                    "C09.forgetful",
                    format!(
                        "op#{i}: {} had to wait {} ns for the bar (held by another thread inside suspend()); progress is exactly {rate} steps/s since it took effect but per_sec() = {ps} (relative error {rel:e}): time before the reset counts",
                        ["reset_eta()", "reset()", "reset_elapsed()"][kind as usize],
                        hold - hold / 2
                    ),
                );
                break;
            }
            r.probe("blocked_reset_checks");
        }
        r.nontrivial = ops.len() >= 2;
        r
    });
    finish_report(res, out)
}

fn exec_twins(sc: &Scenario) -> Report {
    let sc2 = sc.clone();
    let (res, out) = World::run(Config::sequential(sc.seed), move || {
        let sc = sc2;
        let mut r = Report::default();
        let len = Some(sc.c("len0"));
        let a = ProgressBar::with_draw_target(len, ProgressDrawTarget::hidden());
        let b = ProgressBar::with_draw_target(len, ProgressDrawTarget::hidden());
        // threads[0] = pre-history of a, threads[1] = pre-history of b (same total duration is not
        // needed: both are then synchronised), threads[2] = common post-history
        let run_pre = |pb: &ProgressBar, ops: &[Op]| {
            for op in ops {
                match op.k.as_str() {
                    "gap" => sched::advance_quiet(op.n0()),
                    "update" => {
                        pb.set_position(op.n0());
                        pb.tick();
                    }
                    "reset_eta" => pb.reset_eta(),
                    _ => {}
                }
            }
        };
        let empty = vec![];
        let pre = call(|| {
            run_pre(&a, sc.threads.first().unwrap_or(&empty));
            run_pre(&b, sc.threads.get(1).unwrap_or(&empty));
        });
        if let Err(p) = pre {
            r.violate("C09.no_panic", format!("a call of the pre-history panicked: {p}"));
            return r;
        }
        // synchronise: same position at the same instant -
        //   kind 0: recorded by both estimators;
        //   kind 1 (reset() only: the position goes back to 0 anyway): not at all, the bars stay
        //           where their pre-histories left them;
        //   kind 2 (reset_eta only): bar a gets there through a position update that its
        //           estimator does not see (the position rate limiter skips the tick), b's is
        //           recorded
        let forget = sc.c("forget");
        let sync_kind = match (sc.c("sync_kind"), forget % 3) {
            (1, 1) => 1,
            (2, 0) => 2,
            _ => 0,
        };
        sched::advance_quiet(sc.c("sync_gap").max(1));
        let p_sync = sc.c("sync_pos");
        match sync_kind {
            1 => {}
            2 => {
                // use up a's position bucket (burst 10) at this instant, then move it
                for _ in 0..12 {
                    a.inc(0);
                }
                a.set_position(p_sync);
                b.set_position(p_sync);
                b.tick();
            }
            _ => {
                for pb in [&a, &b] {
                    pb.set_position(p_sync);
                    pb.tick();
                }
            }
        }
        r.probe(["sync_recorded", "sync_none", "sync_unrecorded"][sync_kind as usize]);
        sched::advance_quiet(sc.c("after_sync_gap"));
        // forget
        for pb in [&a, &b] {
            match forget % 3 {
                0 => pb.reset_eta(),
                1 => pb.reset(),
                _ if sc.c("seek_via") == 1 => {
                    // backwards seek through the builder: the bar "starts" from a position
                    // behind the progress it has made
                    let _ = pb.clone().with_position(p_sync / 2);
                }
                _ if sc.c("seek_via") == 2 => {
                    // backwards by dec(): steps taken back
                    pb.dec(p_sync - p_sync / 2);
                    pb.tick();
                }
                _ if sc.c("seek_via") == 3 => {
                    // backwards through the io adaptor
                    use std::io::Seek;
                    let _ = pb.wrap_read(std::io::Cursor::new(Vec::<u8>::new())).seek(std::io::SeekFrom::Start(p_sync / 2));
                    pb.tick();
                }
                _ => {
                    // backwards seek
                    pb.set_position(p_sync / 2);
                    pb.tick();
                }
            }
        }
        if forget % 3 == 2 && sc.c("seek_via") >= 2 {
            r.probe("forget_rewind_dec_or_adaptor");
        }
        if forget % 3 == 2 && sc.c("seek_via") == 1 {
            r.probe("forget_rewind_with_position");
        }
        r.probe(["forget_reset_eta", "forget_reset", "forget_rewind"][(forget % 3) as usize]);
        if forget % 3 == 2 && p_sync / 2 == p_sync {
            // no rewind happened (position 0): nothing is forgotten, nothing to compare
            r.inconclusive = true;
            return r;
        }
        let post = sc.threads.get(2).cloned().unwrap_or_default();
        for (i, op) in post.iter().enumerate() {
            let at = format!("post op#{i} {}", op.short());
            match op.k.as_str() {
                "gap" => sched::advance_quiet(op.n0()),
                "update" => {
                    for pb in [&a, &b] {
                        pb.set_position(op.n0());
                        pb.tick();
                    }
                }
                _ => {}
            }
            if op.k == "gap" && op.n0() == 0 {
                continue;
            }
            let q = call(|| ((a.per_sec(), a.eta(), a.duration()), (b.per_sec(), b.eta(), b.duration())));
            let ((pa, ea, _), (pbv, eb, _)) = match q {
                Ok(x) => x,
                Err(p) => {
                    r.violate("C09.no_panic", format!("{at}: per_sec/eta/duration panicked: {p}"));
                    break;
                }
            };
            let same = (pa == pbv || (pa.is_nan() && pbv.is_nan())) && ea == eb;
            if !same {
                r.violate(
                    "C09.forgetful",
                    format!("{at}: after {} two bars with different earlier histories report per_sec {pa} vs {pbv}, eta {ea:?} vs {eb:?}", ["reset_eta", "reset", "a backwards seek"][(forget % 3) as usize]),
                );
                break;
            }
            r.probe("twin_comparisons");
        }
        r.nontrivial = post.len() >= 2;
        r
    });
    finish_report(res, out)
}

fn log_uniform(rng: &mut Rng, lo: f64, hi: f64) -> u64 {
    (lo * (hi / lo).powf(rng.f64())) as u64
}

fn gen_history(rng: &mut Rng, n: u64, with_resets: bool) -> Vec<Op> {
    let mut ops = vec![];
    let mut pos: u64 = 0;
    let scale = *rng.pick(&[1u64, 10, 1000, 1_000_000, 1_000_000_000_000]);
    for _ in 0..n {
        let gap = match rng.below(8) {
            0 => 1_000_000,
            1 => 1_000_000_000,
            2 => rng.range(1, 50) * 1_000_000,
            _ => log_uniform(rng, 1e6, 2.6e14),
        };
        // (one gap in eight passes inside the closure of ProgressBar::suspend)
        ops.push(Op::new("gap").n(gap).n(rng.chance(1, 8) as u64));
        match rng.below(20) {
            0 if with_resets => ops.push(Op::new("reset_eta")),
            1 if with_resets => ops.push(Op::new("reset_elapsed")),
            2 if with_resets => {
                ops.push(Op::new("reset"));
                pos = 0;
            }
            3 if with_resets => {
                // backwards seek
                pos /= 2;
                ops.push(Op::new("update").n(pos));
            }
            4 | 5 => {
                // stall: successive queries
                for _ in 0..rng.range(2, 5) {
                    ops.push(Op::new("gap").n(log_uniform(rng, 1e6, 6e11)));
                    ops.push(Op::new("query"));
                }
            }
            6 => ops.push(Op::new("query")),
            _ => {
                pos = pos.saturating_add(rng.range(0, 20) * scale / rng.range(1, 4)).min(1_000_000_000_000_000);
                ops.push(Op::new("update").n(pos));
            }
        }
    }
    ops
}

impl Check for C09 {
    fn id(&self) -> &'static str {
        "C09"
    }
    fn rule_text(&self) -> String {
        "laws: 1..60 updates (gap, position; one gap in eight passes inside the closure of suspend()) with gaps log-uniform 1 ms..3 days plus exact cadences, positions up to 1e15, reset_eta/reset_elapsed/reset/backwards seeks/set_length/finish/abandon at random places, bars built with_elapsed, queries at update instants and during stalls; checked: per_sec finite and >= 0 and eta/duration well formed at every instant strictly after creation or the last reset, per_sec <= largest sample rate since the last reset (an abandoned bar: <= the largest sample rate since creation unless the bar was told to forget), successive stall queries non-increasing, eta == remaining/per_sec (0 when finished / unknown length / no progress), duration == elapsed + eta, all at one frozen instant. steady (in one run out of three the length is kept 1..3000 steps ahead of the position, also far above 2^53, and eta == remaining/per_sec is checked there as well): every update lies exactly on p = p0 + r (t - t0) (k steps per ms with whole-ms gaps, or one step per m ms with gaps multiple of m; in one run out of four the unit is the microsecond, so that updates come closer together than 1 ms) with irregular cadence => |per_sec - r| <= 1e-7 r at every update; the position reaches the bar by set_position + tick, by update(closure), by inc + tick, or by a seek through the io adaptor (SeekFrom::Start / Current / End in turn over an offset-only stream) + tick, and one gap in eight passes inside the closure of suspend(). twins: two bars with different pre-histories are synchronised (same position at the same instant: recorded by both estimators; or - before reset() - not at all; or - before reset_eta - reached by one of them through a position update its estimator never saw because the position rate limiter skipped the tick), forget (reset_eta / reset / backwards seek, the seek by set_position, through `with_position` on a clone, by dec() or through the io adaptor) and get the same post-history => bit-identical per_sec and eta. blocked (one run in twenty): reset_eta()/reset()/reset_elapsed() has to wait 1 ms .. 5 min for the bar, which another simulated thread holds inside suspend(); steady progress after the reset took effect must be reported with its true rate (1e-7). ticked: a bar (hidden or visible) under a steady ticker of 1/10/50 ms is moved along a line by set_position only (with a ticker installed position calls do not feed the estimator: the ticker does); after 20 ticks and 20 steps per_sec must lie within 50 % of the true rate. The oracle states laws only: a different estimator that satisfies them passes. Non-trivial: laws = >= 2 recorded samples; steady = >= 2 updates; twins = >= 2 post operations. Distinct = distinct scenario hash.".into()
    }
    fn assumptions(&self) -> Vec<String> {
        vec![
            "a reference double-EWA (f64) is run beside the real code only to classify a monotone-decay violation as the known finding".into(),
            "queries are made only at instants strictly after creation / last reset (the statement's domain)".into(),
        ]
    }
    fn budget(&self, tier: Tier) -> Budget {
        match tier {
            Tier::Quick => Budget { runs: 150_000, wall_s: 90 },
            Tier::Thorough => Budget { runs: 3_000_000, wall_s: 600 },
        }
    }
    fn corpus(&self) -> Vec<Scenario> {
        // accelerating history, then a stall: (1 s, 1), (2 s, 101), then queries
        let mut s = Scenario::new("C09", "laws", 91);
        s.set("len_known", 1);
        s.set("len0", 1000);
        s.threads = vec![vec![
            Op::new("gap").n(1_000_000_000),
            Op::new("update").n(1),
            Op::new("gap").n(1_000_000_000),
            Op::new("update").n(101),
            Op::new("gap").n(1_000_000_000),
            Op::new("query"),
            Op::new("gap").n(3_000_000_000),
            Op::new("query"),
            Op::new("gap").n(5_000_000_000),
            Op::new("query"),
        ]];
        // duration == elapsed + eta also once finished, and without a length (fix 4f7a316)
        let mut f = Scenario::new("C09", "laws", 92);
        f.set("len_known", 1);
        f.set("len0", 10);
        f.threads = vec![vec![Op::new("gap").n(1_000_000_000), Op::new("update").n(3), Op::new("gap").n(1_000_000_000), Op::new("finish").n(0), Op::new("gap").n(1_000_000), Op::new("query")]];
        let mut g = Scenario::new("C09", "laws", 93);
        g.set("len_known", 0);
        g.threads = vec![vec![Op::new("gap").n(1_000_000_000), Op::new("update").n(3), Op::new("gap").n(1_000_000_000), Op::new("query")]];
        vec![s, f, g]
    }
    fn gen(&self, rng: &mut Rng, tier: Tier, _index: u64) -> Scenario {
        let n = rng.range(1, if tier == Tier::Quick { 30 } else { 60 });
        if rng.chance(1, 25) {
            let mut sc = Scenario::new("C09", "ticked", rng.next_u64());
            sc.set("visible", rng.chance(1, 3) as u64);
            sc.set("tick_ms", *rng.pick(&[1, 10, 50]));
            sc.set("step_ms", *rng.pick(&[1, 3, 20, 100]));
            sc.set("per_step", *rng.pick(&[1, 7, 1000]));
            sc.set("steps", rng.range(30, 120));
            sc.threads = vec![vec![]];
            return sc;
        }
        if rng.chance(1, 20) {
            let mut sc = Scenario::new("C09", "blocked", rng.next_u64());
            sc.set("pre_pos", *rng.pick(&[1, 500, 1_000_000]));
            sc.set("hold_ns", *rng.pick(&[2_000_000, 300_000_000, 5_000_000_000, 600_000_000_000]));
            sc.set("reset_kind", rng.below(3));
            sc.set("steps_per_ms", *rng.pick(&[1, 7, 1000]));
            let mut ops = vec![];
            for _ in 0..rng.range(2, 12) {
                ops.push(Op::new("gap_ms").n(*rng.pick(&[1, 5, 100, 1000, 60_000])));
            }
            sc.threads = vec![ops];
            return sc;
        }
        match rng.weighted(&[6, 2, 2]) {
            0 => {
                let mut sc = Scenario::new("C09", "laws", rng.next_u64());
                sc.set("len_known", rng.chance(4, 5) as u64);
                sc.set("len0", *rng.pick(&[0, 100, 1_000_000, 1_000_000_000_000_000, u64::MAX]));
                if rng.chance(1, 6) {
                    sc.set("with_elapsed_ns", *rng.pick(&[1, 1_000_000_000, 120_000_000_000, 86_400_000_000_000]));
                }
                let mut ops = gen_history(rng, n, true);
                if rng.chance(1, 6) {
                    let at = rng.usize_below(ops.len() + 1);
                    ops.insert(at, Op::new("set_length").n(rng.below(1_000_000)));
                }
                if rng.chance(1, 4) {
                    ops.push(Op::new("finish").n(rng.below(5)));
                    ops.push(Op::new("gap").n(1_000_000_000));
                    ops.push(Op::new("query"));
                    if rng.chance(1, 2) {
                        // the finished bar is put to work again: nothing of the first run counts
                        ops.push(Op::new("reset"));
                        ops.push(Op::new("gap").n(*rng.pick(&[1, 1_000_000, 500_000_000])));
                        ops.push(Op::new("query"));
                        let n2 = rng.range(1, 8);
                        ops.extend(gen_history(rng, n2, true));
                    }
                }
                sc.threads = vec![ops];
                sc
            }
            1 => {
                let mut sc = Scenario::new("C09", "steady", rng.next_u64());
                sc.set("base_pos", *rng.pick(&[0, 0, 1 << 53, (1 << 60) + 7, 1 << 62, 1_000_000_007]));
                if rng.chance(1, 5) {
                    sc.set("with_elapsed_ns", *rng.pick(&[1_000_000_000, 120_000_000_000, 86_400_000_000_000]));
                }
                if rng.chance(1, 4) {
                    sc.set("unit_ns", 1_000);
                }
                sc.set("base_builder", *rng.pick(&[0, 0, 0, 1, 1, 2]));
                sc.set("via_update", rng.weighted(&[5, 2, 1, 2]) as u64);
                sc.set("near_len", rng.chance(1, 3) as u64);
                if rng.chance(1, 2) {
                    sc.set("steps_per_ms", *rng.pick(&[1, 2, 7, 1000, 1_000_000]));
                } else {
                    sc.set("steps_per_ms", 0);
                    sc.set("ms_per_step", *rng.pick(&[1, 3, 10, 1000, 60_000]));
                }
                let mut ops = vec![];
                for _ in 0..n {
                    let g = match rng.below(6) {
                        0 => 1,
                        1 => 1000,
                        2 => rng.range(1, 30),
                        3 => rng.range(1, 100_000),
                        4 => rng.range(1, 86_400_000),
                        _ => *rng.pick(&[15_000, 16, 17, 5, 250]),
                    };
                    ops.push(Op::new("gap_ms").n(g).n(rng.chance(1, 8) as u64));
                    if rng.chance(1, 15) {
                        ops.push(Op::new("reset_eta"));
                    }
                }
                sc.threads = vec![ops];
                sc
            }
            _ => {
                let mut sc = Scenario::new("C09", "twins", rng.next_u64());
                sc.set("len0", 1_000_000_000_000_000_000);
                let na = rng.range(0, 10);
                let pre_a = gen_history(rng, na, false);
                let nb = rng.range(0, 10);
                let pre_b = gen_history(rng, nb, false);
                let maxp = pre_a.iter().chain(pre_b.iter()).filter(|o| o.k == "update").map(|o| o.n0()).max().unwrap_or(0);
                sc.set("sync_pos", maxp + rng.range(1, 1000));
                sc.set("sync_gap", log_uniform(rng, 1e6, 1e11));
                sc.set("after_sync_gap", *rng.pick(&[0, 1, 1_000_000, 5_000_000_000]));
                sc.set("forget", rng.below(3));
                sc.set("seek_via", if sc.c("forget") == 2 { rng.weighted(&[3, 2, 2, 2]) as u64 } else { 0 });
                sc.set("sync_kind", rng.below(3));
                let mut post = vec![];
                let mut pos = if sc.c("forget") == 0 { sc.c("sync_pos") } else { 0 };
                for _ in 0..rng.range(2, 12) {
                    post.push(Op::new("gap").n(log_uniform(rng, 1e6, 1e12)));
                    pos += rng.range(1, 100_000);
                    post.push(Op::new("update").n(pos));
                }
                sc.threads = vec![pre_a, pre_b, post];
                sc
            }
        }
    }
    fn exec(&self, sc: &Scenario) -> Report {
        match sc.mode.as_str() {
            "steady" => exec_steady(sc),
            "twins" => exec_twins(sc),
            "ticked" => exec_ticked(sc),
            "blocked" => exec_blocked(sc),
            _ => exec_laws(sc),
        }
    }
    fn known(&self, rule: &str, _sc: &Scenario, detail: &str) -> Option<&'static str> {
        if rule == "C09.monotone_decay" && detail.contains("[reference double-EWA rises too]") {
            return Some("KF-C09-DECAY");
        }
        None
    }
}
