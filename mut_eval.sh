#!/bin/bash
# /verif/mut_eval.sh <patch.diff|-> <check...> — run checks against a *scratch copy* of /repo with
# a patch applied, from a scratch copy of /verif, so that neither /repo's working tree nor
# /verif/evidence is touched (usable while a background run builds from /repo).
#   - the scratch trees live under /tmp/mut-eval (repo worktree + copy of /verif incl. build cache)
#   - env TIER=quick|thorough (default quick), KEEP=1 keeps the scratch trees for the next call
# prints one line per check: "<ID> rc=<exit code> <first violated rule>"
set -u
PATCH=$1; shift
TIER=${TIER:-quick}
S=${MUT_EVAL_DIR:-/tmp/mut-eval}
mkdir -p $S
if [ ! -d $S/repo ]; then git -C /repo worktree add --detach $S/repo HEAD >/dev/null 2>&1 || exit 2; fi
git -C $S/repo checkout -q --detach "$(git -C /repo rev-parse HEAD)" 2>/dev/null
git -C $S/repo checkout -q -- . 2>/dev/null
if [ "$PATCH" != "-" ]; then git -C $S/repo apply "$PATCH" || { echo "patch does not apply"; exit 2; }; fi
mkdir -p $S/verif
rsync -a --delete --exclude target --exclude .git --exclude evidence --exclude replays --exclude seeded --exclude shadow /verif/ $S/verif/
cd $S/verif || exit 2
for c in "$@"; do
  out=$(VERIF_REPO=$S/repo ./check $c $TIER 2>&1); rc=$?
  rule=$(echo "$out" | grep -m1 -o "violation of rule [A-Za-z0-9_.]*" | sed 's/violation of rule //')
  echo "$c rc=$rc $rule"
  [ $rc -eq 2 ] && echo "$out" | tail -5
done
git -C $S/repo checkout -q -- . 2>/dev/null
if [ "${KEEP:-0}" != "1" ]; then
  git -C /repo worktree remove --force $S/repo 2>/dev/null; git -C /repo worktree prune
  rm -rf $S
fi
